"""C13 - ADB message framing: header layout, validation on receipt, lock discipline, payload-after-header."""
from contracts.usb_model import wire_setup

A = 'openhtf/plugs/usb/adb_message.py'
U32 = '0 <= {x} and {x} < 2**32'


def register(reg):
  reg.repo.module('openhtf.plugs.usb.adb_message')
  reg.repo.module('openhtf.util.timeouts')
  reg.shape('AdbMessage', _command='int', arg0='int', arg1='int', data='str', magic='int')
  reg.shape('RawAdbMessage', cmd='int', arg0='int', arg1='int', data_length='int', data_checksum='int', magic='int')
  reg.shape('AdbTransportAdapter', _transport='ref:transport', _reader_lock='ref:lock', _writer_lock='ref:lock')
  reg.closed('AdbMessage', 'RawAdbMessage')
  reg.prop_meta['C13'] = {
      'not_decided': ['interleaving of two writers / two readers: decided only through the monitor rule (every transport.write '
                      'is inside one critical section of _writer_lock, every transport.read inside _reader_lock); the step '
                      'from that to "frames never interleave" is the standard lock lemma, not machine-checked'],
      'bounded': [],
      'assumptions': ['struct.pack/unpack("<6I") = six little-endian 32-bit words (trusted); payloads are str with code points <= 255',
                      'bytesum (sum of code points) is an uninterpreted fold with 0 <= bytesum(s) <= 255*len(s)',
                      'transport.write/read follow contracts/usb_model.py (ghost wire log / device script)',
                      'timeouts.PolledTimeout is opaque: has_expired() and remaining_ms return arbitrary values'],
  }
  T = 'openhtf/util/timeouts.py'
  c = reg.contract(T, 'PolledTimeout.has_expired', props=()); c.returns('bool').modifies(); c.trusted('wall clock')

  def expiry_is_monotone(ex, st, env, result):
    # a PolledTimeout that has expired stays expired (time.time() against a fixed deadline): the previous observation on the same
    # object (syntactically the same reference term) implies the next one
    import z3 as _z3
    key = '$expired:%s' % env['self'].t
    prev = st.ghost.get(key)
    if prev is not None:
      st.assume(_z3.Implies(prev.t, result.t))
    st.ghost[key] = result
  c.hooks['after_call'] = expiry_is_monotone
  c = reg.contract(T, 'PolledTimeout.remaining_ms', props=()); c.returns('val{none,int,float}').modifies(); c.trusted('wall clock')
  c = reg.contract(T, 'PolledTimeout.remaining', props=()); c.returns('val{none,int,float}').modifies(); c.trusted('wall clock')
  c = reg.contract(T, 'PolledTimeout.from_millis', props=()); c.param('timeout_ms', 'val').returns('ref:PolledTimeout').modifies()
  c.trusted('timeout construction')

  known = ' or '.join("command == '%s'" % k for k in ('SYNC', 'CNXN', 'AUTH', 'OPEN', 'OKAY', 'CLSE', 'WRTE'))
  c = reg.contract(A, 'AdbMessage.__init__', props=['C13'])
  c.param('command', 'val{none,str}').param('arg0', 'int').param('arg1', 'int').param('data', 'str')
  c.raises('AdbProtocolError', when='command is None or not (%s)' % known)
  c.ensures('known_command', 'command is not None and (%s)' % known)
  c.ensures('wire_id', 'self._command == wire_command(command) and 0 <= self._command and self._command < 2**32')
  c.ensures('fields', 'self.arg0 == arg0 and self.arg1 == arg1 and self.data == data')
  c.ensures('magic_is_the_complement', 'self.magic == 2**32 - 1 - self._command')
  c.modifies('self._command', 'self.arg0', 'self.arg1', 'self.data', 'self.magic')

  valid = ('%s and %s and %s and self.magic == 2**32 - 1 - self._command' %
           (U32.format(x='self._command'), U32.format(x='self.arg0'), U32.format(x='self.arg1')))
  c = reg.contract(A, 'AdbMessage.header', props=['C13'])
  c.requires('valid_message', valid).requires('payload_fits', 'len(self.data) < 2**32')
  c.returns('bytes').modifies()
  c.ensures('six_little_endian_words', 'result == adb_header(self._command, self.arg0, self.arg1, self.data)')
  c.ensures('twenty_four_bytes', 'len(result) == 24')

  c = reg.contract(A, 'AdbMessage.data_crc32', props=['C13'])
  c.returns('int').modifies()
  c.ensures('byte_sum_mod_2_32', 'result == bytesum(self.data) % 2**32')

  # ---------------------------------------------------------------- validation on receipt
  c = reg.contract(A, 'RawAdbMessage.to_adb_message', props=['C13'])
  c.param('data', 'str').returns('ref:AdbMessage')
  known_wire = ' or '.join('self.cmd == wire_command(%r)' % k for k in ('SYNC', 'CNXN', 'AUTH', 'OPEN', 'OKAY', 'CLSE', 'WRTE'))
  corrupt = 'len(data) != self.data_length or bytesum(data) % 2**32 != self.data_checksum'
  c.raises('AdbProtocolError', when='not (%s)' % known_wire)
  c.raises('AdbDataIntegrityError', when=corrupt)
  c.ensures('only_intact_frames', '(%s) and not (%s)' % (known_wire, corrupt))
  c.ensures('same_message', 'result._command == self.cmd and result.arg0 == self.arg0 and result.arg1 == self.arg1 and result.data == data')
  c.modifies()

  # ---------------------------------------------------------------- writer: header then payload, one critical section
  c = reg.contract(A, 'AdbTransportAdapter.write_message', props=['C13'])
  c.setup(wire_setup(lock_write='_writer_lock'))
  c.param('message', 'ref:AdbMessage').param('timeout', 'ref:PolledTimeout')
  c.requires('valid_message', valid.replace('self.', 'message.')).requires('payload_fits', 'len(message.data) < 2**32')
  w = "ghost('wire')"
  hdr = 'adb_header(message._command, message.arg0, message.arg1, message.data)'
  c.ensures('header_then_payload', 'len(%s) == old(len(%s)) + 2 and %s[len(%s) - 2] == %s and %s[len(%s) - 1] == message.data'
            % (w, w, w, w, hdr, w, w))
  c.ensures('earlier_traffic_untouched', 'forall_int(lambda j: implies(0 <= j and j < old(len(%s)), same(%s[j], old(content(%s))[j])))' % (w, w, w))
  c.raises('UsbWriteFailedError',
           ensures=[('only_a_transport_failure_stops_the_frame',
                     'len(%s) == old(len(%s)) or (len(%s) == old(len(%s)) + 1 and %s[len(%s) - 1] == %s)' % (w, w, w, w, w, w, hdr))])
  c.modifies('list(%s)' % w)

  # ---------------------------------------------------------------- reader
  c = reg.contract(A, 'AdbTransportAdapter.read_message', props=['C13'])
  c.setup(wire_setup(lock_read='_reader_lock'))
  c.param('timeout', 'ref:PolledTimeout').returns('ref:AdbMessage')
  c.requires('device_script_long_enough', "ghost('cursor') + 2 <= len(ghost('script'))")
  s0 = "ghost('script')[old(ghost('cursor'))]"
  s1 = "ghost('script')[old(ghost('cursor')) + 1]"
  word = lambda k: 'le32_at(%s, %d)' % (s0, k)
  has_payload = '%s > 0' % word(3)
  data = "(%s if %s else '')" % (s1, has_payload)
  known_wire = ' or '.join('%s == wire_command(%r)' % (word(0), k) for k in ('SYNC', 'CNXN', 'AUTH', 'OPEN', 'OKAY', 'CLSE', 'WRTE'))
  corrupt = 'len(%s) != %s or bytesum(%s) %% 2**32 != %s' % (data, word(3), data, word(4))
  c.raises('UsbReadFailedError')
  c.raises('AdbProtocolError', when='len(%s) != 24 or not (%s)' % (s0, known_wire))
  c.raises('AdbDataIntegrityError', when='len(%s) == 24 and (%s)' % (s0, corrupt))
  c.ensures('well_formed_header', 'len(%s) == 24 and (%s) and not (%s)' % (s0, known_wire, corrupt))
  c.ensures('same_message', 'result._command == %s and result.arg0 == %s and result.arg1 == %s and result.data == %s'
            % (word(0), word(1), word(2), data))
  c.ensures('consumes_header_and_payload', "ghost('cursor') == old(ghost('cursor')) + (2 if %s else 1)" % has_payload)
  c.modifies()
