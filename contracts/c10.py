"""C10 - the serialized (base-type) view always equals the in-memory record: cache coherence and strict-JSON scalars."""
import z3

TR = 'openhtf/core/test_record.py'
DATA = 'openhtf/util/data.py'
M = 'openhtf/core/measurements.py'


def _is_builtin_type(v):
  from pyvc.values import VClass
  from pyvc.ops import VTypeSym
  return (isinstance(v, VClass) and isinstance(v.cls, str)) or isinstance(v, VTypeSym)


def _unsupported(what):
  from pyvc.values import Unsupported
  raise Unsupported(what + ' on a non-builtin type')


def register(reg):
  reg.shape('TestRecord', _cached_record='own:dict[str,val]', _cached_diagnosers='val', _cached_diagnoses='own:list', _cached_log_records='own:list',
            _cached_config_from_metadata='val', code_info='val')
  reg.prop_meta['C10'] = {
      'not_decided': ['the recursive rendering of containers / attrs objects / namedtuples (convert_to_base_types is verified for scalar values only; for '
                      'containers it is used as a pure function of its argument)',
                      'DimensionedMeasuredValue._cached_basetype_values and PhaseState._cached / _update_measurements (tuple-keyed dicts, functools.partial '
                      'closures: outside the subset)',
                      'json.dumps itself (strictness follows from "no non-finite float leaves convert_to_base_types when json_safe")'],
      'bounded': [],
      'assumptions': ['convert_to_base_types(x) for non-scalar x is a pure function of x (trusted contract); attr.asdict / _asdict are not modelled'],
  }
  from pyvc.values import VClass, VBuiltin, VBool
  reg.externals['mutablerecords.records.RecordClass'] = lambda ex: VClass('mutablerecords.RecordClass')
  reg.externals['mutablerecords.records'] = lambda ex: __import__('pyvc.values', fromlist=['VModule']).VModule('mutablerecords.records')
  reg.externals['enum.Enum'] = lambda ex: VClass('enum.Enum')
  reg.externals['inspect.isclass'] = lambda ex: VBuiltin('inspect.isclass', lambda e, s, a, k: [(s, VBool(isinstance(a[0], VClass)))])
  # attr.has(type(x)) for a builtin scalar type: False
  reg.externals['attr.has'] = lambda ex: VBuiltin('attr.has', lambda e, s, a, k: [(s, VBool(False))] if _is_builtin_type(a[0]) else _unsupported('attr.has'))

  # the renderer as a pure function (call-site contract): same argument, same rendering
  for c in [c for c in reg.contracts if c.name == 'convert_to_base_types']:
    c.function_of('obj', 'json_safe')
    c.ensures('a_dict_renders_to_a_new_dict', 'implies(isinstance(obj, dict), isinstance(result, dict) and is_fresh(result))')

  # ---------------------------------------------------------------- every record list is rendered, from its cache
  c = reg.contract(TR, 'TestRecord.as_base_types', props=['C10'])
  c.returns('dict[str,val]')
  c.requires('static_part_of_the_cache_as_built_by_the_constructor',
             "forall_key(lambda k: implies(k in self._cached_record, k == 'station_id' or k == 'code_info'))")
  for key, field in (('phases', '_cached_phases'), ('subtests', '_cached_subtests'), ('branches', '_cached_branches'),
                     ('checkpoints', '_cached_checkpoints'), ('diagnoses', '_cached_diagnoses'), ('log_records', '_cached_log_records')):
    c.ensures('every_record_list_is_rendered.%s' % key, "'%s' in result and same(result['%s'], self.%s)" % (key, key, field))
  c.ensures('scalars_rendered', "'dut_id' in result and 'outcome' in result and 'start_time_millis' in result and 'end_time_millis' in result and 'marginal' in result")
  c.modifies()

  # ---------------------------------------------------------------- the caches grow in lockstep with the lists they render
  def adder(method, param, lst, cached, kind, how):
    c = reg.contract(TR, 'TestRecord.' + method, props=['C10'], callsite=False)       # callers keep inlining these two-line helpers
    c.param(param, kind)
    c.requires('cache_in_step', 'len(self.%s) == len(self.%s)' % (lst, cached))
    c.ensures('record_appended', 'len(self.{l}) == old(len(self.{l})) + 1 and self.{l}[len(self.{l}) - 1] is {p}'.format(l=lst, p=param))
    c.ensures('cache_appended_in_step', 'len(self.{c}) == len(self.{l})'.format(c=cached, l=lst))
    c.ensures('cache_entry_is_the_rendering_of_the_new_record', 'same(self.{c}[len(self.{c}) - 1], {h})'.format(c=cached, h=how.format(p=param)))
    c.ensures('earlier_cache_entries_kept',
              'forall_int(lambda j: implies(0 <= j and j < old(len(self.{c})), same(self.{c}[j], old(content(self.{c}))[j])))'.format(c=cached))
    c.modifies('list(self.%s)' % lst, 'list(self.%s)' % cached)
    return c
  conv = 'data.convert_to_base_types({p})'
  adder('add_subtest_record', 'subtest_record', 'subtests', '_cached_subtests', 'ref:SubtestRecord', conv)
  adder('add_branch_record', 'branch_record', 'branches', '_cached_branches', 'ref:BranchRecord', conv)
  adder('add_checkpoint_record', 'checkpoint_record', 'checkpoints', '_cached_checkpoints', 'ref:CheckpointRecord', conv)
  adder('add_diagnosis', 'diagnosis', 'diagnoses', '_cached_diagnoses', 'ref:Diagnosis', conv)

  # ---------------------------------------------------------------- strict JSON: no non-finite float leaves the renderer when json_safe
  c = reg.contract(DATA, 'convert_to_base_types', props=['C10'], name='convert_to_base_types[scalar]', callsite=False)
  c.param('obj', 'val{none,bool,int,float,str}').param('ignore_keys', 'tuple').param('tuple_type', 'val').param('json_safe', 'bool').returns('val')
  c.requires('ignore_keys_is_not_a_str', 'not isinstance(ignore_keys, str)')
  c.ensures('None_bool_int_str_pass_through', 'implies(not isinstance(obj, float), same(result, obj))')
  c.ensures('finite_floats_pass_through', 'implies(isinstance(obj, float) and isfinite(obj), same(result, obj))')
  c.ensures('non_finite_floats_become_strings_when_json_safe', 'implies(isinstance(obj, float) and not isfinite(obj) and json_safe, isinstance(result, str))')
  c.ensures('never_a_non_finite_float_when_json_safe', 'implies(json_safe and isinstance(result, float), isfinite(result))')
  c.modifies()
  reg.replayers['convert_to_base_types[scalar]'] = replay_scalar


def replay_scalar(model, ob):
  import math
  from openhtf.util import data
  out = {'scenarios': []}
  bad = False
  for obj in (None, True, 3, 1.5, -0.0, float('nan'), float('inf'), float('-inf'), 'x', ''):
    for js in (True, False):
      try:
        got = data.convert_to_base_types(obj, json_safe=js)
      except Exception as e:   # pylint: disable=broad-except
        got = e
      if isinstance(obj, float) and not math.isfinite(obj) and js:
        ok = isinstance(got, str)
      elif isinstance(obj, float) and math.isnan(obj):
        ok = isinstance(got, float) and math.isnan(got)
      else:
        ok = type(got) is type(obj) and got == obj
      if not ok:
        bad = True
        out['scenarios'].append({'value': repr(obj), 'json_safe': js, 'rendered': repr(got)})
  out['reproduced'] = bad
  return out
