"""C12 - thread kill: the sequential contracts of KillableThread (kill confined to the body, a kill before start prevents the
body, a kill after the body returned has no effect) and of PhaseExecutorThread.join_or_die (contracts/c05.py)."""
import z3

from pyvc.values import VInt, NONE

T = 'openhtf/util/threads.py'


def bump(name):
  def hook(ex, st, env, result):
    if name in st.ghost:
      st.ghost[name] = VInt(st.ghost[name].t + 1)
  return hook


def register(reg):
  reg.shape('KillableThread', _running_lock='ref:lock', _killed='ref:event', _profiler='opt:ref:object', _logger='ref:logger', _run_with_profiling='bool',
            name='str', ident='val{none,int}')
  reg.trusted_methods[('object', 'enable')] = lambda ex, st, a, k: [(st, NONE)]
  reg.trusted_methods[('object', 'disable')] = lambda ex, st, a, k: [(st, NONE)]
  reg.private('KillableThread', '_running_lock', '_killed', '_profiler', '_logger')
  reg.prop_meta['C12'] = {
      'not_decided': ['"the executor proceeds within a bounded delay after the deadline", "anything an abandoned body does later is discarded": real time and '
                      'thread interleavings', 'delivery of the asynchronous exception (ctypes PyThreadState_SetAsyncExc) into the right thread'],
      'bounded': [],
      'assumptions': ['_running_lock is held by the thread exactly while _thread_proc runs (established by run(), verified here as "the body is only '
                      'called inside the lock"); acquire(False) failing therefore means the body is running',
                      'async_raise is used by contract (ghost counter of raises)'],
  }
  reg.replayers['KillableThread.kill'] = replay_kill
  reg.replayers['KillableThread.run'] = replay_kill
  c = reg.contract(T, 'KillableThread.async_raise', props=())
  c.param('exc_type', 'val')
  c.modifies()
  c.hooks['after_call'] = bump('async.n')
  c.trusted('ctypes.pythonapi.PyThreadState_SetAsyncExc: schedules the exception in the target thread (its failure modes, ValueError / '
            'RuntimeError for an invalid thread id, are not modelled)')

  c = reg.contract(T, 'KillableThread._thread_proc', props=())
  c.raises('Exception')
  c.modifies('*user')
  c.hooks['after_call'] = bump('proc.n')
  c.hooks['on_raise'] = lambda ex, st, env, exc: bump('proc.n')(ex, st, env, None)
  c.trusted('the body of the thread (overridden by subclasses): arbitrary code; each call is counted')

  c = reg.contract(T, 'KillableThread._thread_finished', props=())
  c.modifies('*user')
  c.hooks['after_call'] = bump('fin.n')
  c.trusted('finish hook (overridden by subclasses): counted')

  # ---------------------------------------------------------------- kill
  c = reg.contract(T, 'KillableThread.kill', props=['C12'])
  c.option(exact_self=True)
  c.ghost('async.n', 'int')
  c.ensures('the_kill_request_is_always_recorded', 'self._killed.is_set()')
  c.ensures('a_thread_that_is_not_running_is_left_alone', "implies(not old(alive(self)), ghost('async.n') == old(ghost('async.n')))")
  c.ensures('at_most_one_asynchronous_raise', "ghost('async.n') <= old(ghost('async.n')) + 1")
  c.modifies('self._killed.flag')

  # ---------------------------------------------------------------- run
  c = reg.contract(T, 'KillableThread.run', props=['C12'])
  c.option(exact_self=True)
  c.ghost('proc.n', 'int').ghost('fin.n', 'int')
  c.ensures('a_kill_requested_before_the_start_prevents_the_body', "implies(old(self._killed.is_set()), ghost('proc.n') == old(ghost('proc.n')))")
  c.ensures('the_body_runs_at_most_once', "ghost('proc.n') <= old(ghost('proc.n')) + 1")
  c.ensures('the_finish_hook_always_runs_exactly_once', "ghost('fin.n') == old(ghost('fin.n')) + 1")
  c.raises('Exception', ensures=[('the_finish_hook_always_runs_exactly_once', "ghost('fin.n') == old(ghost('fin.n')) + 1")])
  # ThreadTerminationError is a SystemExit: it ends the thread silently (not an Exception, so _thread_exception is not consulted)
  c.raises('ThreadTerminationError', ensures=[('the_finish_hook_always_runs_exactly_once', "ghost('fin.n') == old(ghost('fin.n')) + 1"),
                                               ('the_body_runs_at_most_once', "ghost('proc.n') <= old(ghost('proc.n')) + 1"),
                                               ('a_kill_requested_before_the_start_prevents_the_body', "implies(old(self._killed.is_set()), ghost('proc.n') == old(ghost('proc.n')))")])
  c.modifies('*user')


def replay_kill(model, ob):
  """kill() on a thread that has not started / has finished / is running: the request must always be recorded, and a
  kill before start must keep the body from running."""
  import threading
  from openhtf.util import threads as T_
  out = {'scenarios': []}
  bad = False

  class Body(T_.KillableThread):
    def __init__(self):
      super(Body, self).__init__(name='replay')
      self.ran = False

    def _thread_proc(self):
      self.ran = True
  t = Body()
  t.kill()
  recorded = t._killed.is_set()
  t.start(); t.join(5)
  if not recorded or t.ran:
    bad = True
    out['scenarios'].append({'kill before start': {'request recorded': recorded, 'body ran afterwards': t.ran}})
  t2 = Body()
  t2.start(); t2.join(5)
  t2.kill()
  if not t2._killed.is_set() or not t2.ran:
    bad = True
    out['scenarios'].append({'kill after the thread finished': {'request recorded': t2._killed.is_set(), 'body had run': t2.ran}})
  out['reproduced'] = bad
  return out
