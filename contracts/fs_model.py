"""Trusted model of the file system for C17 (ghost map path -> content).

  fs            ghost dict: path -> bytes content; a key is present iff the file exists
  file objects  pseudo-class 'file' with heap fields path, written (everything handed to write() so far), open
  buffering     between write() and a successful close()/flush the on-disk content is *some prefix* of `written`
  rename/move   atomic on one file system: fs[dst] := fs[src], src removed; or raises OSError and changes nothing
Every operation that creates, truncates or replaces the *destination* path (ghost 'dest') emits the obligation
`published content is the complete serialization` (ghost 'complete'): crash points between operations are covered because
each operation is atomic in the model and the invariant is re-established after every one of them."""
import z3

from pyvc.values import Val, VRef, VInt, VStr, VBytes, VBool, NONE, VVal, Raised, VBuiltin, fresh, Unsupported
from pyvc.state import Obligation


def _fs(ex, st):
  return st.ghost['fs']


def _content(ex, st, path_t):
  fs = _fs(ex, st)
  return Val.s(z3.Select(ex.dict_val(st, fs), Val.VS(path_t)))


def _exists(ex, st, path_t):
  return z3.Select(ex.dict_dom(st, _fs(ex, st)), Val.VS(path_t))


def _set(ex, st, path_t, content_t, what):
  """fs[path] := content, with the publication obligation when path may be the destination."""
  dest = st.ghost.get('dest')
  if dest is not None:
    may_be_dest = path_t == dest.t
    goal = z3.Implies(may_be_dest, content_t == st.ghost['complete'].t)
    ex.ctx.obligations.append(Obligation('%s/fs.destination_only_receives_the_complete_record@%s' % (ex.ctx.unit, what), 'post',
                                         st.pc, goal, '', {'msg': '%s may leave a partial / empty file at the destination' % what}))
  fs = _fs(ex, st)
  ex.dict_set_raw(st, fs, z3.Store(ex.dict_dom(st, fs), Val.VS(path_t), z3.BoolVal(True)),
                  z3.Store(ex.dict_val(st, fs), Val.VS(path_t), Val.VS(content_t)))


def _remove(ex, st, path_t):
  fs = _fs(ex, st)
  ex.dict_set_raw(st, fs, z3.Store(ex.dict_dom(st, fs), Val.VS(path_t), z3.BoolVal(False)))


def _oserror(ex, st):
  return Raised(ex.alloc(st, 'exc:OSError'))


def register(reg):
  reg.shape('file', name='str', written='str', is_open='bool')
  tm = reg.trusted_methods

  def new_file(ex, st, path_t, truncate):
    f = ex.alloc(st, 'file')
    ex.write_field(st, f, 'name', VStr(path_t))
    ex.write_field(st, f, 'written', VStr(''))
    ex.write_field(st, f, 'is_open', VBool(True))
    return f

  def named_tmp(ex, st, args, kwargs):
    ex.ctx.use_trusted('tempfile.NamedTemporaryFile')
    p = fresh('tmp_path', z3.StringSort())
    st.axiom(z3.Not(_exists(ex, st, p)))
    if 'dest' in st.ghost:
      st.axiom(p != st.ghost['dest'].t)          # the staging file is never the destination itself
    f = new_file(ex, st, p, True)
    _set(ex, st, p, z3.StringVal(''), 'NamedTemporaryFile')
    return [(st, f)]
  reg.externals['tempfile.NamedTemporaryFile'] = lambda ex: VBuiltin('tempfile.NamedTemporaryFile', named_tmp)

  def b_open(ex, st, args, kwargs):
    ex.ctx.use_trusted('open')
    path = args[0]
    mode = z3.simplify(args[1].t).as_string() if len(args) > 1 else 'r'
    out = []
    bad = st.fork()
    out.append((bad, _oserror(ex, bad)))
    f = new_file(ex, st, path.t, 'w' in mode)
    if 'w' in mode:
      _set(ex, st, path.t, z3.StringVal(''), 'open(%r)' % mode)
    elif 'a' in mode:
      cur = z3.If(_exists(ex, st, path.t), _content(ex, st, path.t), z3.StringVal(''))
      _set(ex, st, path.t, cur, 'open(%r)' % mode)
    out.append((st, f))
    return out
  reg.externals['builtins.open'] = lambda ex: VBuiltin('open', b_open)

  def f_write(ex, st, args, kwargs):
    ex.ctx.use_trusted('file.write')
    f, data = args[0], args[1]
    if isinstance(data, VVal):
      rs = ex.resolve(st, data)
      if len(rs) > 1:
        out = []
        for s, tv in rs:
          out.extend(f_write(ex, s, [f, tv], kwargs))
        return out
      st, data = rs[0]
    out = []
    bad = st.fork()
    out.append((bad, _oserror(ex, bad)))
    w = ex.read_field(st, f, 'written').t
    nw = z3.Concat(w, data.t)
    ex.write_field(st, f, 'written', VStr(nw))
    # buffered: the file now holds some prefix of everything written, at least what it held before
    path = ex.read_field(st, f, 'name').t
    before = _content(ex, st, path)
    now = fresh('disk', z3.StringSort())
    st.axiom(z3.And(z3.PrefixOf(before, now), z3.PrefixOf(now, nw)))
    _set(ex, st, path, now, 'file.write')
    out.append((st, VInt(z3.Length(data.t))))
    return out

  def f_close(ex, st, args, kwargs, what='file.close'):
    ex.ctx.use_trusted(what)
    f = args[0]
    out = []
    bad = st.fork()      # a failing flush: the file keeps a prefix of the data
    out.append((bad, _oserror(ex, bad)))
    path = ex.read_field(st, f, 'name').t
    _set(ex, st, path, ex.read_field(st, f, 'written').t, what)
    ex.write_field(st, f, 'is_open', VBool(False))
    out.append((st, NONE))
    return out
  tm[('file', 'write')] = f_write
  tm[('file', 'close')] = f_close
  tm[('file', 'flush')] = lambda ex, st, a, k: f_close(ex, st, a, k, 'file.flush')
  tm[('file', 'fileno')] = lambda ex, st, a, k: [(st, VInt(3))]

  def rename(what):
    def impl(ex, st, args, kwargs):
      ex.ctx.use_trusted(what)
      src, dst = args[0], args[1]
      out = []
      bad = st.fork()
      out.append((bad, _oserror(ex, bad)))
      st.axiom(_exists(ex, st, src.t))
      _set(ex, st, dst.t, _content(ex, st, src.t), what)
      _remove(ex, st, src.t)
      out.append((st, NONE))
      return out
    return lambda ex: VBuiltin(what, impl)
  reg.externals['shutil.move'] = rename('shutil.move')
  reg.externals['os.rename'] = rename('os.rename')

  def os_remove(ex, st, args, kwargs):
    ex.ctx.use_trusted('os.remove')
    out = []
    bad = st.fork()
    out.append((bad, _oserror(ex, bad)))
    dest = st.ghost.get('dest')
    if dest is not None:
      ex.ctx.obligations.append(Obligation('%s/fs.destination_is_never_removed@os.remove' % ex.ctx.unit, 'post', st.pc,
                                           args[0].t != dest.t, '', {'msg': 'os.remove may delete the destination'}))
    _remove(ex, st, args[0].t)
    out.append((st, NONE))
    return out
  reg.externals['os.remove'] = lambda ex: VBuiltin('os.remove', os_remove)
  reg.externals['os.fsync'] = lambda ex: VBuiltin('os.fsync', lambda ex_, st, a, k: [(st, NONE)])

  # `with open(...) as f:` -- leaving the block closes the file (which may fail)
  def file_cm(cm):
    if isinstance(cm, VRef) and cm.cls == 'file':
      def run(ex, st, cm_, target, run_body):
        out = []
        if target is not None:
          for s1, c1 in ex.assign(st, target, cm_):
            pass
        for s2, ctl in run_body(st):
          for s3, r in f_close(ex, s2, [cm_], {}, 'file.__exit__'):
            if isinstance(r, Raised):
              out.append((s3, ('raise', r.exc)))
            else:
              out.append((s3, ctl))
        return out
      return run
    return None
  reg.trusted_cms.append(file_cm)


def fs_setup(dest_expr=None):
  def setup(ex, st, made):
    st.ghost['fs'] = ex.make_input(st, 'fs', 'dict[str,str]')
    st.ghost['complete'] = ex.make_input(st, 'complete', 'str')
    st.ghost['dest'] = ex.make_input(st, 'dest', 'str')
    if ex.unit_contract is not None:
      ex.unit_contract.ghost_const.update(['complete', 'dest'])      # specification inputs: nothing changes them
  return setup
