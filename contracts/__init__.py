"""Sidecar contracts for google/openhtf.  One module per property group; nothing in /repo is annotated."""
import importlib

MODULES = ['_trusted', 'core', 'c07', 'c20', 'c01', 'c05', 'usb_model', 'c13', 'fs_model', 'c17', 'c02', 'c16', 'c06', 'c08', 'c09', 'c10', 'c15', 'c12']


def register_all(reg):
  reg.replayers = {}
  reg.prop_meta = {}
  for m in MODULES:
    mod = importlib.import_module('contracts.' + m)
    mod.register(reg)
