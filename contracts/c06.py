"""C06 - measurement outcome = all validators on the recorded (transformed) value."""
import z3

from pyvc.values import Val, VVal, VBool, NONE, Raised, VCallable, fresh

M = 'openhtf/core/measurements.py'
OUT = "class_named('measurements.Outcome')"


def register(reg):
  reg.repo.module('openhtf.core.measurements')
  reg.shape('Measurement', name='str', _dimensions='opt:tuple', _transform_fn='opt:fn:transform', validators='own:list[fn:mvalidator]',
            conditional_validators='own:list[ref:_ConditionalValidator]',
            _measured_value='val{ref:MeasuredValue,ref:DimensionedMeasuredValue}', _notification_cb='opt:fn:notification_cb',
            outcome='enum:measurements.Outcome', marginal='bool', set_time_millis='val{none,int}', _cached='own:opt:dict')
  reg.shape('MeasuredValue', name='str', transform_fn='opt:fn:transform', stored_value='val', is_value_set='bool', _cached_value='val')
  reg.shape('DimensionedMeasuredValue', name='str', num_dimensions='int', transform_fn='opt:fn:transform', notify_value_set='val',
            value_dict='own:dict', _cached_basetype_values='opt:list')
  reg.shape('_ConditionalValidator', result='val', validator='fn:mvalidator')
  reg.shape('Collection', _measurements='dict[ref:Measurement]')
  reg.private('Measurement', 'name', '_dimensions', '_transform_fn', 'validators', 'conditional_validators', '_measured_value',
              '_notification_cb', 'set_time_millis', '_cached')
  reg.private('MeasuredValue', 'name', 'transform_fn', 'stored_value', 'is_value_set', '_cached_value')
  reg.private('Collection', '_measurements')
  reg.private_exceptions.update(['MeasurementNotSetError', 'NotAMeasurementError', 'InvalidDimensionsError'])
  reg.prop_meta['C06'] = {
      'not_decided': [],
      'bounded': [],
      'assumptions': ['validators, is_marginal and the transform are deterministic functions of (object, value) that either return or raise '
                      '(op_mvalidator / op_raises_mvalidator ...): the property itself presupposes this ("every validator accepts that recorded value")',
                      'is_marginal does not raise; the notification callback (PhaseState._notify) neither raises nor touches measurements',
                      'data.convert_to_base_types is used by contract (pure)'],
  }

  # ------------------------------------------------------------------ opaque behaviours: deterministic, may raise
  def det(label, kind, may_raise=True):
    from pyvc.values import parse_kind
    k = parse_kind(kind)

    def spec(ex, st, fn, pos, kwargs):
      ex.ctx.use_trusted('opaque:' + label)
      args = [ex.to_val(st, a) for a in pos]
      f = z3.Function('op_' + label, *([z3.IntSort()] + [Val] * len(args) + [k.sort()]))
      out = []
      ok = st
      if may_raise and not ex.spec_mode:
        r = z3.Function('op_raises_' + label, *([z3.IntSort()] + [Val] * len(args) + [z3.BoolSort()]))
        bad = st.fork()
        bad.assume(r(fn.t, *args))
        exc = ex.make_exception(bad, 'Exception', exact=False)
        out.append((bad, Raised(exc)))
        ok.assume(z3.Not(r(fn.t, *args)))
      out.insert(0, (ok, ex.wrap(ok, f(fn.t, *args), k)))
      return out
    return spec
  reg.opaque['transform'] = det('transform', 'val')
  reg.opaque['mvalidator'] = det('mvalidator', 'bool')
  reg.opaque['mvalidator.is_marginal'] = det('mvalidator.is_marginal', 'bool', may_raise=False)
  reg.opaque['notification_cb'] = lambda ex, st, fn, pos, kwargs: [(st, NONE)]

  register_scalar(reg)
  register_dimensioned(reg)
  reg.replayers['Measurement.validate[scalar]'] = replay_validate
  reg.replayers['Measurement.notify_value_set[scalar]'] = replay_validate
  reg.replayers['MeasuredValue.set'] = replay_set
  reg.replayers['Collection.__setitem__'] = replay_setitem
  reg.replayers['Measurement.validate_on'] = replay_validate_on


def register_scalar(reg):
  # ---------------------------------------------------------------- recorded value = transform(last assigned value)
  c = reg.contract(M, 'MeasuredValue.set', props=['C06', 'C10'])
  c.param('value', 'val')
  recorded = '(self.transform_fn(value) if self.transform_fn is not None else value)'
  fails = "(self.transform_fn is not None and raises_on(self.transform_fn, value))"
  c.ensures('recorded_value_is_the_transform_of_the_assigned_value', 'same(self.stored_value, %s)' % recorded)
  c.ensures('value_is_set', 'self.is_value_set')
  c.ensures('cached_rendering_is_that_of_the_recorded_post_transform_value', 'same(self._cached_value, data.convert_to_base_types(self.stored_value))')
  c.ensures('transform_did_not_fail', 'not %s' % fails)
  c.raises('Exception', when=fails, ensures=[('nothing_recorded', 'same(self.stored_value, old(self.stored_value)) and self.is_value_set == old(self.is_value_set)')])
  c.modifies('self.stored_value', 'self._cached_value', 'self.is_value_set')

  # ---------------------------------------------------------------- outcome = all validators on the recorded value
  scalar = "isinstance(self._measured_value, class_named('MeasuredValue'))"
  val = "cast(self._measured_value, class_named('MeasuredValue')).stored_value"
  is_set = "cast(self._measured_value, class_named('MeasuredValue')).is_value_set"
  accepted = 'all(v(%s) for v in self.validators)' % val
  # all() stops at the first validator that rejects or raises
  first_raise = ('exists_int(lambda j: 0 <= j and j < len(self.validators) and raises_on(self.validators[j], {v}) and '
                 'forall_int(lambda i: implies(0 <= i and i < j, self.validators[i]({v}) and not raises_on(self.validators[i], {v}))))').format(v=val)
  marginal = "any(hasattr(v, 'is_marginal') and v.is_marginal(%s) for v in self.validators)" % val
  c = reg.contract(M, 'Measurement.validate', props=['C06'], name='Measurement.validate[scalar]')
  c.returns('ref:Measurement')
  c.requires('scalar_measurement_with_a_value', '%s and %s' % (scalar, is_set))
  c.requires('no_serialization_cache', 'self._cached is None')
  c.ensures('PASS_exactly_when_every_validator_accepts_the_recorded_value',
            '(self.outcome is %s.PASS) == %s and (self.outcome is %s.FAIL) == (not %s)' % (OUT, accepted, OUT, accepted))
  c.ensures('marginal_only_if_PASS_and_some_validator_deems_the_value_marginal',
            'self.marginal == (self.outcome is %s.PASS and %s)' % (OUT, marginal))
  c.ensures('no_validator_raised_before_the_decision', 'not %s' % first_raise)
  c.ensures('returns_itself', 'result is self')
  c.raises('Exception', when=first_raise,
           ensures=[('a_raising_validator_fails_the_measurement', 'self.outcome is %s.FAIL and not self.marginal' % OUT)])
  c.modifies('self.outcome', 'self.marginal')

  # C10: with a serialization cache present (always the case inside a running phase) the cached outcome follows the
  # in-memory outcome on every exit, including the one where a validator raises
  c = reg.contract(M, 'Measurement.validate', props=['C10'], name='Measurement.validate[cached]', callsite=False)
  c.returns('ref:Measurement')
  c.requires('scalar_measurement_with_a_value', '%s and %s' % (scalar, is_set))
  c.requires('serialization_cache_present', 'self._cached is not None and len(self._cached) > 0')
  in_step = "'outcome' in self._cached and self._cached['outcome'] == self.outcome.name"
  c.ensures('cached_outcome_equals_the_in_memory_outcome', in_step)
  c.raises('Exception', ensures=[('cached_outcome_equals_the_in_memory_outcome', in_step)])
  c.modifies('self.outcome', 'self.marginal', 'dict(self._cached)')

  c = reg.contract(M, 'Measurement.validate', props=['C06'])
  c.returns('ref:Measurement')
  is_scalar0 = 'old(%s and %s and self._cached is None)' % (scalar, is_set)
  c.raises('Exception', ensures=[('a_raising_validator_fails_the_measurement', 'self.outcome is %s.FAIL and not self.marginal' % OUT),
                                 ('some_validator_raised_first', 'implies(%s, %s)' % (is_scalar0, first_raise))])
  c.ensures('pass_or_fail', 'self.outcome is %s.PASS or self.outcome is %s.FAIL' % (OUT, OUT))
  c.ensures('scalar_rule', 'implies(%s, (self.outcome is %s.PASS) == %s and self.marginal == (self.outcome is %s.PASS and %s) and not %s)'
            % (is_scalar0, OUT, accepted, OUT, marginal, first_raise))
  c.ensures('returns_itself', 'result is self')
  c.modifies('self.outcome', 'self.marginal', 'dict(self._cached)')
  c.trusted('call-site form of Measurement.validate[scalar] (verified above) extended to dimensioned measurements, whose recorded value is the '
            'list of (coordinates..., value) tuples: for those only "ends PASS or FAIL, FAIL when a validator raises" is used')

  # ---------------------------------------------------------------- assignment through the collection
  c = reg.contract(M, 'Measurement.notify_value_set', props=['C06'], name='Measurement.notify_value_set[scalar]')
  c.requires('scalar_measurement_with_a_value', '%s and %s and not self.dimensions' % (scalar, is_set))
  c.requires('no_serialization_cache', 'self._cached is None')
  c.ensures('PASS_exactly_when_every_validator_accepts_the_recorded_value', '(self.outcome is %s.PASS) == %s and (self.outcome is %s.FAIL) == (not %s)' % (OUT, accepted, OUT, accepted))
  c.ensures('marginal_only_if_PASS_and_some_validator_deems_the_value_marginal', 'self.marginal == (self.outcome is %s.PASS and %s)' % (OUT, marginal))
  c.raises('Exception', when=first_raise, ensures=[('a_raising_validator_fails_the_measurement', 'self.outcome is %s.FAIL and not self.marginal' % OUT)])
  c.modifies('self.outcome', 'self.marginal', 'dict(self._cached)')

  m = 'self._measurements[name]'
  mv = "cast(%s._measured_value, class_named('MeasuredValue'))" % m
  r = lambda e: e.replace('self.validators', m + '.validators').replace('self._measured_value', m + '._measured_value').replace('self.outcome', m + '.outcome').replace('self.marginal', m + '.marginal')
  c = reg.contract(M, 'Collection.__setitem__', props=['C06'])
  c.param('name', 'str').param('value', 'val')
  c.requires('measurements_are_well_formed',
             "forall_key(lambda k: implies(k in self._measurements, self._measurements[k]._cached is None and "
             "(not self._measurements[k].dimensions) == isinstance(self._measurements[k]._measured_value, class_named('MeasuredValue')) and "
             "implies(isinstance(self._measurements[k]._measured_value, class_named('MeasuredValue')), "
             "cast(self._measurements[k]._measured_value, class_named('MeasuredValue')).transform_fn is self._measurements[k]._transform_fn)))")
  c.requires('distinct_names_hold_distinct_measurement_objects',
             'forall_key(lambda k: implies(k in self._measurements and name in self._measurements and k != name, '
             'self._measurements[k] is not self._measurements[name]))')
  undeclared = 'name not in self._measurements'
  dimensioned = '(name in self._measurements and bool(%s.dimensions))' % m
  tf = '%s._transform_fn' % m
  recorded = '(%s(value) if %s is not None else value)' % (tf, tf)
  tfails = '(%s is not None and raises_on(%s, value))' % (tf, tf)
  unchanged = ('forall_key(lambda k: implies(k in self._measurements, self._measurements[k].outcome is old(self._measurements[k].outcome) and '
               'self._measurements[k].marginal == old(self._measurements[k].marginal)))')
  c.raises('NotAMeasurementError', when=undeclared, ensures=[('changes_nothing', unchanged)])
  c.raises('InvalidDimensionsError', when=dimensioned, ensures=[('changes_nothing', unchanged)])
  c.ensures('declared_scalar_measurement', 'not %s and not %s' % (undeclared, dimensioned))
  c.ensures('recorded_value_is_the_transform_of_the_assigned_value', 'same(%s.stored_value, %s) and %s.is_value_set' % (mv, recorded, mv))
  c.ensures('PASS_exactly_when_every_validator_accepts_the_recorded_value', r('(self.outcome is %s.PASS) == %s and (self.outcome is %s.FAIL) == (not %s)' % (OUT, accepted, OUT, accepted)))
  c.ensures('marginal_only_if_PASS_and_some_validator_deems_the_value_marginal', r('self.marginal == (self.outcome is %s.PASS and %s)' % (OUT, marginal)))
  c.ensures('other_measurements_untouched',
            'forall_key(lambda k: implies(k in self._measurements and k != name, self._measurements[k].outcome is old(self._measurements[k].outcome)))')
  rejected = "isinstance(exc, (class_named('NotAMeasurementError'), class_named('InvalidDimensionsError')))"
  c.raises('Exception', when='%s or (not %s and not %s and (%s or %s))' % (rejected, undeclared, dimensioned, tfails, r(first_raise)),
           ensures=[('a_raising_validator_fails_the_measurement', 'implies(not %s and not %s, %s.outcome is %s.FAIL and not %s.marginal)' % (rejected, tfails, m, OUT, m)),
                    ('a_failing_transform_changes_nothing', 'implies(not %s and %s, %s)' % (rejected, tfails, unchanged))])
  c.modifies('Measurement.outcome', 'Measurement.marginal', 'Measurement.set_time_millis', 'MeasuredValue.stored_value', 'MeasuredValue._cached_value',
             'MeasuredValue.is_value_set')

  # ---------------------------------------------------------------- declaring validators
  c = reg.contract(M, 'Measurement.with_validator', props=['C06'])
  c.param('validator', 'val').returns('ref:Measurement')
  c.raises('ValueError', when='not callable(validator)', ensures=[('nothing_added', 'len(self.validators) == old(len(self.validators))')])
  c.ensures('callable_validator', 'callable(validator)')
  c.ensures('appended_last', 'len(self.validators) == old(len(self.validators)) + 1 and same(self.validators[len(self.validators) - 1], validator)')
  c.ensures('earlier_validators_kept', 'forall_int(lambda j: implies(0 <= j and j < old(len(self.validators)), same(self.validators[j], old(content(self.validators))[j])))')
  c.ensures('returns_itself', 'result is self')
  c.modifies('list(self.validators)', 'self._cached')

  cv = 'self.conditional_validators'
  c = reg.contract(M, 'Measurement.validate_on', props=['C06'])
  c.param('result_to_validator_mapping', 'dict[val,val]').returns('ref:Measurement')
  mp = 'result_to_validator_mapping'
  c.ensures('one_conditional_validator_per_entry_appended_in_order',
            'len({cv}) == old(len({cv})) + len({mp}) and forall_key(lambda k: implies(k in {mp}, '
            'same({cv}[old(len({cv})) + keypos({mp}, k)].result, k) and same({cv}[old(len({cv})) + keypos({mp}, k)].validator, {mp}[k])))'.format(cv=cv, mp=mp))
  c.ensures('earlier_conditional_validators_kept',
            'forall_int(lambda j: implies(0 <= j and j < old(len({cv})), {cv}[j] is old(content({cv}))[j]))'.format(cv=cv))
  c.ensures('returns_itself', 'result is self')
  c.raises('ValueError', ensures=[('earlier_conditional_validators_kept',
                                   'len({cv}) >= old(len({cv})) and forall_int(lambda j: implies(0 <= j and j < old(len({cv})), {cv}[j] is old(content({cv}))[j]))'.format(cv=cv))])
  c.modifies('list(%s)' % cv, 'self._cached')
  c.loop('for (result, validator) in result_to_validator_mapping.items()',
         inv=[('appended_so_far', 'len({cv}) == old(len({cv})) + _i and forall_key(lambda k: implies(k in {mp} and keypos({mp}, k) < _i, '
               'same({cv}[old(len({cv})) + keypos({mp}, k)].result, k) and same({cv}[old(len({cv})) + keypos({mp}, k)].validator, {mp}[k])))'.format(cv=cv, mp=mp)),
              ('earlier_conditional_validators_kept',
               'forall_int(lambda j: implies(0 <= j and j < old(len({cv})), {cv}[j] is old(content({cv}))[j]))'.format(cv=cv))],
         modifies=['list(%s)' % cv])


# --------------------------------------------------------------------------------------------------------------------
# replay on the real code: small families of concrete measurements around the counter-model
# --------------------------------------------------------------------------------------------------------------------
class _V(object):
  """A concrete validator: accepts / rejects / raises, optionally with an is_marginal method."""

  def __init__(self, accept, raises=False, marginal=None):
    self.accept, self.raises, self.calls = accept, raises, 0
    if marginal is not None:
      self.is_marginal = lambda value: marginal

  def __call__(self, value):
    self.calls += 1
    if self.raises:
      raise RuntimeError('validator failure (replay)')
    return self.accept


def _spec_outcome(vs):
  """(outcome name, marginal, raises) prescribed by C06 for validators vs applied in order to one recorded value."""
  for v in vs:
    if v.raises:
      return 'FAIL', False, True
    if not v.accept:
      return 'FAIL', False, False
  return 'PASS', any(getattr(v, 'is_marginal', None) is not None and v.is_marginal(0) for v in vs), False


def _families():
  A, R, X = (lambda **k: _V(True, **k)), (lambda **k: _V(False, **k)), (lambda **k: _V(True, raises=True, **k))
  return [[], [A()], [R()], [A(marginal=True)], [A(marginal=False), A(marginal=True)], [A(marginal=True), R()], [A(), X()], [R(), X()],
          [X(), A()], [A(marginal=True), X()]]


def replay_validate(model, ob):
  import logging
  logging.disable(logging.CRITICAL)
  from openhtf.core import measurements as MM
  out = {'scenarios': []}
  bad = False
  for vs in _families():
    for prior_marginal in (False, True):
      m = MM.Measurement('m')
      m.validators.extend(vs)
      m.measured_value.set(7)
      m.marginal = prior_marginal
      want = _spec_outcome(vs)
      try:
        m.validate()
        raised = False
      except RuntimeError:
        raised = True
      got = (m.outcome.name, m.marginal, raised)
      ok = got == want
      bad = bad or not ok
      if not ok:
        out['scenarios'].append({'validators': [(v.accept, v.raises, hasattr(v, 'is_marginal')) for v in vs], 'marginal_before': prior_marginal,
                                 'prescribed (outcome, marginal, raises)': want, 'actual': got})
  out['reproduced'] = bad
  return out


def replay_set(model, ob):
  import logging
  logging.disable(logging.CRITICAL)
  from openhtf.core import measurements as MM
  out = {'scenarios': []}
  bad = False
  for tf in (None, lambda x: x * 10):
    for first in (None, 3, 30):
      for value in (3, 4, 30):
        mv = MM.MeasuredValue('m', transform_fn=tf)
        if first is not None:
          mv.set(first)
        mv.set(value)
        want = value if tf is None else tf(value)
        if not (mv.is_value_set and mv.stored_value == want):
          bad = True
          out['scenarios'].append({'transform': 'x*10' if tf else None, 'assigned_before': first, 'assigned': value,
                                   'prescribed_recorded_value': want, 'actual': mv.stored_value})
  out['reproduced'] = bad
  return out


def replay_setitem(model, ob):
  import logging
  logging.disable(logging.CRITICAL)
  from openhtf.core import measurements as MM
  out = {'scenarios': []}
  bad = False
  for vs in _families():
    for values in ((5,), (5, 6)):
      m = MM.Measurement('m')
      m.validators.extend(vs)
      other = MM.Measurement('other')
      coll = MM.Collection({'m': m, 'other': other})
      want = _spec_outcome(vs)
      raised = False
      for v in values:
        try:
          coll['m'] = v
          raised = False
        except RuntimeError:
          raised = True
      got = (m.outcome.name, m.marginal, raised)
      ok = got == want and m.measured_value.stored_value == values[-1] and other.outcome.name == 'UNSET'
      if not ok:
        bad = True
        out['scenarios'].append({'validators': [(v.accept, v.raises, hasattr(v, 'is_marginal')) for v in vs], 'assigned': values,
                                 'prescribed': want, 'actual': got, 'recorded': m.measured_value.stored_value})
  for name, exc in (('nope', 'NotAMeasurementError'),):
    coll = MM.Collection({'m': MM.Measurement('m')})
    try:
      coll[name] = 1
      got = 'no exception'
    except Exception as e:   # pylint: disable=broad-except
      got = type(e).__name__
    if got != exc:
      bad = True
      out['scenarios'].append({'assignment to undeclared name': name, 'prescribed': exc, 'actual': got})
  out['reproduced'] = bad
  return out


def replay_validate_on(model, ob):
  from openhtf.core import measurements as MM
  out = {'scenarios': []}
  bad = False
  for L in (0, 1, 2):
    for k in (0, 1, 2):
      m = MM.Measurement('m')
      for i in range(L):
        m.conditional_validators.append(MM._ConditionalValidator('old%d' % i, _V(True)))
      before = list(m.conditional_validators)
      mapping = {('new%d' % i): _V(True) for i in range(k)}
      m.validate_on(mapping)
      after = list(m.conditional_validators)
      ok = (len(after) == L + k and all(a is b for a, b in zip(after, before)) and
            [(cv.result, cv.validator) for cv in after[L:]] == list(mapping.items()))
      if not ok:
        bad = True
        out['scenarios'].append({'conditional validators before': L, 'mapping entries': k, 'after': [cv.result for cv in after],
                                 'prescribed': ['old%d' % i for i in range(L)] + list(mapping)})
  out['reproduced'] = bad
  return out


def register_dimensioned(reg):
  D = "class_named('DimensionedMeasuredValue')"
  c = reg.contract(M, '_coordinates_len', props=['C06'], name='_coordinates_len[scalar]', callsite=False)
  c.param('coordinates', 'val{int,float,str,none,bool}').returns('int').modifies()
  c.ensures('a_scalar_coordinate_counts_as_one', 'result == 1')

  c = reg.contract(M, 'DimensionedMeasuredValue.__setitem__', props=['C06'], name='DimensionedMeasuredValue.__setitem__[wrong number of coordinates]', callsite=False)
  c.param('coordinates', 'val{int,float,str,none,bool}').param('value', 'val')
  c.requires('more_than_one_dimension', 'self.num_dimensions != 1')
  c.raises('InvalidDimensionsError', ensures=[('changes_nothing', 'len(self.value_dict) == old(len(self.value_dict))')])
  c.ensures('never_accepted', 'False')
  c.option(never_returns=True)
  c.modifies()

  c = reg.contract(M, '_coordinates_len', props=['C06'], name='_coordinates_len[tuple]', callsite=False)
  c.param('coordinates', 'tuple[val]').returns('int').modifies()
  c.ensures('a_tuple_counts_its_members', 'result == len(coordinates)')

  c = reg.contract(M, 'DimensionedMeasuredValue.__setitem__', props=['C06'], name='DimensionedMeasuredValue.__setitem__[tuple of the wrong length]', callsite=False)
  c.param('coordinates', 'tuple[val]').param('value', 'val')
  c.requires('wrong_number_of_coordinates', 'len(coordinates) != self.num_dimensions')
  c.raises('InvalidDimensionsError', ensures=[('changes_nothing', 'len(self.value_dict) == old(len(self.value_dict))')])
  c.ensures('never_accepted', 'False')
  c.option(never_returns=True)
  c.modifies()

  c = reg.contract(M, 'Measurement.notify_value_set', props=['C06'], name='Measurement.notify_value_set[dimensioned]', callsite=False)
  c.requires('dimensioned', 'bool(self.dimensions)')
  c.ensures('validated_at_phase_end_not_now', 'self.outcome is %s.PARTIALLY_SET and self.marginal == old(self.marginal)' % OUT)
  c.modifies('self.outcome')
