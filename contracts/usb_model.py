"""Trusted model of the raw USB transport used by the ADB / fastboot protocol code.

transport.write(data, timeout_ms) appends `data` to the ghost wire log (a heap list) or raises UsbWriteFailedError;
transport.read(n, timeout_ms) returns the next element of the ghost device script (heap list + ghost cursor) or raises
UsbReadFailedError.  Every call records the lock set it was made under as a `lock` obligation when the contract asks
for it (monitor rule: all call sites inside one critical section)."""
import z3

from pyvc.values import Val, VRef, VInt, VStr, VBool, NONE, VVal, Raised, fresh
from pyvc.state import Obligation


def register(reg):
  reg.repo.module('openhtf.plugs.usb.usb_exceptions')
  tm = reg.trusted_methods

  def need_lock(ex, st, what, field):
    want = st.ghost.get('$need_lock:' + what)
    if want is None:
      return
    held = any(want in l for l in st.locks)
    ex.ctx.obligations.append(Obligation('%s/lock.%s_inside_%s' % (ex.ctx.unit, what, want.strip('_')), 'lock', st.pc,
                                         z3.BoolVal(held), '', {'msg': 'transport.%s called without holding %s (held: %r)' % (what, want, st.locks)}))

  def t_write(ex, st, args, kwargs):
    ex.ctx.use_trusted('transport.write')
    need_lock(ex, st, 'write', None)
    out = []
    ok = st.fork()
    log = ok.ghost.get('wire')
    if log is not None:
      ex.list_append(ok, log, args[1])
    out.append((ok, NONE))
    bad = st
    exc = ex.alloc(bad, ex.class_by_name('UsbWriteFailedError'))
    out.append((bad, Raised(exc)))
    return out

  def t_read(ex, st, args, kwargs):
    ex.ctx.use_trusted('transport.read')
    need_lock(ex, st, 'read', None)
    out = []
    ok = st.fork()
    script, cur = ok.ghost.get('script'), ok.ghost.get('cursor')
    if script is None:
      val = VStr(fresh('rx', z3.StringSort()))
    else:
      val = ex.from_val(ok, z3.Select(ex.list_items(ok, script), cur.t), None)
      ok.axiom(Val.is_VS(val.t))
      ok.tags[val.t.get_id()] = 'str'
      ok.ghost['cursor'] = VInt(cur.t + 1)
    out.append((ok, val))
    bad = st
    exc = ex.alloc(bad, ex.class_by_name('UsbReadFailedError'))
    out.append((bad, Raised(exc)))
    return out
  tm[('transport', 'write')] = t_write
  tm[('transport', 'read')] = t_read
  tm[('transport', 'close')] = lambda ex, st, a, k: [(st, NONE)]


def wire_setup(lock_write=None, lock_read=None):
  """Contract setup hook: ghost wire log, device script and cursor."""
  def setup(ex, st, made):
    st.ghost['wire'] = ex.make_input(st, 'wire', 'list')
    st.ghost['script'] = ex.make_input(st, 'script', 'list[str]')
    st.ghost['cursor'] = ex.make_input(st, 'cursor', 'int')
    st.assume(st.ghost['cursor'].t >= 0)
    if lock_write:
      st.ghost['$need_lock:write'] = lock_write
    if lock_read:
      st.ghost['$need_lock:read'] = lock_read
  return setup
