"""Trusted contracts for stdlib / external objects (assumed, never verified; every use is counted in evidence)."""
import z3

from pyvc.values import (Val, VRef, VBool, VInt, VStr, VNone, NONE, VVal, VTuple, Raised, Unsupported, fresh)


def register(reg):
  tm = reg.trusted_methods

  # ---- re: compiled pattern objects.  match/search/fullmatch are three *different* uninterpreted relations over
  # (pattern text, subject); only their identity matters to the contracts (which one the code calls).
  def rx_method(kind):
    def impl(ex, st, args, kwargs):
      rx, subject = args[0], args[1]
      ex.ctx.use_trusted('re.Pattern.%s' % kind)
      pat = z3.Function('re_pattern', z3.IntSort(), z3.StringSort())(rx.t)
      hit = z3.Function('re_%s' % kind, z3.StringSort(), z3.StringSort(), z3.BoolSort())(pat, subject.t)
      m = fresh('m', z3.IntSort())
      st.assume(z3.If(hit, m > 0, m == 0))
      return [(st, VRef('match', m, nullable=True))]
    return impl
  for k in ('match', 'search', 'fullmatch'):
    tm[('regex', k)] = rx_method(k)

  # ---- file objects: read() is a deterministic function of the file object
  def file_read(ex, st, args, kwargs):
    ex.ctx.use_trusted('file.read')
    return [(st, VStr(z3.Function('file_read', z3.IntSort(), z3.StringSort())(args[0].t)))]
  tm[('file', 'read')] = file_read

  # ---- threading.Event: an atomic boolean register (heap field event.flag)
  reg.shape('event', flag='bool')

  def ev_is_set(ex, st, args, kwargs):
    ex.ctx.use_trusted('threading.Event')
    ex.event(st, ('event.is_set', args[0].t))
    return [(st, ex.read_field(st, args[0], 'flag'))]

  def ev_set(ex, st, args, kwargs):
    ex.ctx.use_trusted('threading.Event')
    ex.event(st, ('event.set', args[0].t))
    ex.write_field(st, args[0], 'flag', VBool(True))
    return [(st, NONE)]

  def ev_clear(ex, st, args, kwargs):
    ex.ctx.use_trusted('threading.Event')
    ex.event(st, ('event.clear', args[0].t))
    ex.write_field(st, args[0], 'flag', VBool(False))
    return [(st, NONE)]
  tm[('event', 'is_set')] = ev_is_set
  tm[('event', 'set')] = ev_set
  tm[('event', 'clear')] = ev_clear

  # ---- threading.Thread (also KillableThread subclasses): ghost field thread.alive; join() lets the other thread make
  # progress: it may finish (alive -> False) and, for a phase thread, publish its outcome (None -> set, never back).
  reg.shape('threading.Thread', alive='bool')

  def th_start(ex, st, args, kwargs):
    ex.ctx.use_trusted('threading.Thread.start')
    ex.event(st, ('thread.start', args[0].t))
    ex.write_field(st, VRef('threading.Thread', args[0].t), 'alive', VBool(True))
    if 'body_starts' in st.ghost:
      st.ghost['body_starts'] = VInt(st.ghost['body_starts'].t + 1)      # ghost: number of phase bodies started
    hook = reg.start_effects.get(getattr(args[0].cls, 'name', None))
    if hook:
      hook(ex, st, args[0])
    return [(st, NONE)]

  def th_is_alive(ex, st, args, kwargs):
    ex.ctx.use_trusted('threading.Thread.is_alive')
    return [(st, ex.read_field(st, VRef('threading.Thread', args[0].t), 'alive'))]

  def th_join(ex, st, args, kwargs):
    ex.ctx.use_trusted('threading.Thread.join')
    ex.event(st, ('thread.join', args[0].t))
    th = args[0]
    timeout = args[1] if len(args) > 1 else kwargs.get('timeout', NONE)
    if '$join_must_be_bounded' in st.ghost:
      # the unit promises never to wait for this kind of thread without a timeout (a hung thread is abandoned)
      from pyvc.state import Obligation
      unbounded = z3.BoolVal(True) if isinstance(timeout, VNone) else (Val.is_VN(timeout.t) if isinstance(timeout, VVal) else z3.BoolVal(False))
      ex.ctx.obligations.append(Obligation('%s/wait.join_has_a_timeout@%s' % (ex.ctx.unit, ex.stmt_key(ex.cur_node)), 'order', list(st.pc),
                                           z3.Or(z3.Not(unbounded), z3.Not(st.ghost['$join_must_be_bounded'].t)), '',
                                           {'msg': 'join() without a timeout: a thread that never finishes blocks the caller forever'}))
    was = ex.read_field(st, VRef('threading.Thread', th.t), 'alive').t
    now = fresh('alive', z3.BoolSort())
    st.assume(z3.Implies(z3.Not(was), z3.Not(now)))
    if isinstance(timeout, VNone):
      st.assume(z3.Not(now))           # join() without timeout returns only once the thread has finished
    ex.write_field(st, VRef('threading.Thread', th.t), 'alive', VBool(now))
    hook = reg.join_effects.get(getattr(th.cls, 'name', None))
    if hook:
      hook(ex, st, th)
    return [(st, NONE)]
  reg.join_effects = {}
  reg.start_effects = {}
  for k, f in (('start', th_start), ('is_alive', th_is_alive), ('join', th_join)):
    tm[('threading.Thread', k)] = f

  # ---- time: monotonic() never decreases (ghost clock), sleep has no effect
  def mono(ex, st, args, kwargs):
    ex.ctx.use_trusted('time.monotonic')
    prev = st.ghost.get('$mono')
    t = fresh('mono', z3.RealSort())
    if prev is not None:
      st.assume(t >= prev)
    st.ghost['$mono'] = t
    from pyvc.values import VFloat, Flt
    return [(st, VFloat(Flt.FIN(t)))]
  reg.externals['time.monotonic'] = lambda ex: __import__('pyvc.values', fromlist=['x']).VBuiltin('time.monotonic', mono)

  # ---- explicit Lock.acquire / release (the lockset is per path; `with lock:` is handled by the engine)
  def lk_acquire(ex, st, args, kwargs):
    ex.ctx.use_trusted('threading.Lock.acquire')
    lock = args[0]
    name = ex.lock_name(st, lock)
    blocking = args[1] if len(args) > 1 else kwargs.get('blocking', VBool(True))
    timeout = args[2] if len(args) > 2 else kwargs.get('timeout')
    out = []
    for s, b in ex.truth_branch(st, blocking):
      if b and timeout is not None:
        # a blocking acquire with a timeout: either the lock was obtained or the wait ran out (returns False)
        if name not in s.locks or lock.cls == 'rlock':
          got = s.fork()
          got.locks = got.locks + (name,)
          ex.on_acquire(got, lock, name)
          out.append((got, VBool(True)))
        out.append((s, VBool(False)))
      elif b:
        if name in s.locks and lock.cls != 'rlock':
          from pyvc.state import Obligation
          ex.ctx.obligations.append(Obligation('%s/lock.self_deadlock@%s' % (ex.ctx.unit, name), 'lock', s.pc,
                                               z3.BoolVal(False), '', {'msg': 'non-reentrant lock acquired twice'}))
        s.locks = s.locks + (name,)
        ex.on_acquire(s, lock, name)
        out.append((s, VBool(True)))
      else:
        got = s.fork()
        got.locks = got.locks + (name,)
        ex.on_acquire(got, lock, name)
        out.append((got, VBool(True)))
        if name not in s.locks or lock.cls != 'rlock':
          out.append((s, VBool(False)))       # some other thread holds it
    return out

  def lk_release(ex, st, args, kwargs):
    ex.ctx.use_trusted('threading.Lock.release')
    lock = args[0]
    name = ex.lock_name(st, lock)
    if name not in st.locks:
      return [(st, ex.raise_builtin(st, 'RuntimeError', 'release unlocked lock'))]
    held = list(st.locks)
    held.reverse(); held.remove(name); held.reverse()
    st.locks = tuple(held)
    ex.on_release(st, lock, name)
    return [(st, NONE)]
  for cls in ('lock', 'rlock'):
    tm[(cls, 'acquire')] = lk_acquire
    tm[(cls, 'release')] = lk_release

  # ---- lock / event constructors
  from pyvc.values import VBuiltin

  def mk(cls, init=None):
    def impl(ex, st, args, kwargs):
      ex.ctx.use_trusted('threading.' + cls)
      o = ex.alloc(st, cls)
      if init:
        init(ex, st, o)
      return [(st, o)]
    return lambda ex: VBuiltin('threading.' + cls, impl)
  reg.externals['threading.Lock'] = mk('lock')
  reg.externals['threading.RLock'] = mk('rlock')
  reg.externals['threading.Event'] = mk('event', lambda ex, st, o: ex.write_field(st, o, 'flag', VBool(False)))
  reg.externals['cProfile.Profile'] = mk('object')
  reg.externals['pstats.Stats'] = mk('object')
