"""Trusted contracts for stdlib / external objects (assumed, never verified; every use is counted in evidence)."""
import z3

from pyvc.values import (Val, VRef, VBool, VInt, VStr, VNone, NONE, VVal, VTuple, Raised, Unsupported, fresh)


def register(reg):
  tm = reg.trusted_methods

  # ---- re: compiled pattern objects.  match/search/fullmatch are three *different* uninterpreted relations over
  # (pattern text, subject); only their identity matters to the contracts (which one the code calls).
  def rx_method(kind):
    def impl(ex, st, args, kwargs):
      rx, subject = args[0], args[1]
      ex.ctx.use_trusted('re.Pattern.%s' % kind)
      pat = z3.Function('re_pattern', z3.IntSort(), z3.StringSort())(rx.t)
      hit = z3.Function('re_%s' % kind, z3.StringSort(), z3.StringSort(), z3.BoolSort())(pat, subject.t)
      m = fresh('m', z3.IntSort())
      st.assume(z3.If(hit, m > 0, m == 0))
      return [(st, VRef('match', m, nullable=True))]
    return impl
  for k in ('match', 'search', 'fullmatch'):
    tm[('regex', k)] = rx_method(k)

  # ---- file objects: read() is a deterministic function of the file object
  def file_read(ex, st, args, kwargs):
    ex.ctx.use_trusted('file.read')
    return [(st, VStr(z3.Function('file_read', z3.IntSort(), z3.StringSort())(args[0].t)))]
  tm[('file', 'read')] = file_read

  # ---- threading.Event: an atomic boolean register (heap field event.flag)
  reg.shape('event', flag='bool')

  def ev_is_set(ex, st, args, kwargs):
    ex.ctx.use_trusted('threading.Event')
    ex.event(st, ('event.is_set', args[0].t))
    return [(st, ex.read_field(st, args[0], 'flag'))]

  def ev_set(ex, st, args, kwargs):
    ex.ctx.use_trusted('threading.Event')
    ex.event(st, ('event.set', args[0].t))
    ex.write_field(st, args[0], 'flag', VBool(True))
    return [(st, NONE)]

  def ev_clear(ex, st, args, kwargs):
    ex.ctx.use_trusted('threading.Event')
    ex.event(st, ('event.clear', args[0].t))
    ex.write_field(st, args[0], 'flag', VBool(False))
    return [(st, NONE)]
  tm[('event', 'is_set')] = ev_is_set
  tm[('event', 'set')] = ev_set
  tm[('event', 'clear')] = ev_clear
