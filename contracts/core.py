"""Shapes of the core record / state classes and trusted contracts shared by the executor properties."""
import z3

from pyvc.values import Val, VInt, VStr, NONE, fresh

TR = 'openhtf/core/test_record.py'
TS = 'openhtf/core/test_state.py'
TE = 'openhtf/core/test_executor.py'
PE = 'openhtf/core/phase_executor.py'
UT = 'openhtf/util/__init__.py'

OUTCOME = 'val{none,enum:test_record.Outcome}'
PHASE_OUTCOME = 'val{none,enum:PhaseOutcome}'
SUBTEST_OUTCOME = 'val{none,enum:SubtestOutcome}'
PHASE_RESULT = 'val{none,enum:PhaseResult,ref:ExceptionInfo,ref:ThreadTerminationError}'


def register(reg):
  for m in ('openhtf.core.test_record', 'openhtf.core.test_state', 'openhtf.core.test_executor', 'openhtf.core.phase_executor',
            'openhtf.core.phase_descriptor', 'openhtf.core.diagnoses_lib', 'openhtf.core.test_descriptor', 'openhtf.util',
            'openhtf.util.threads', 'openhtf.core.phase_collections', 'openhtf.core.phase_branches', 'openhtf.core.phase_group',
            'openhtf.core.phase_nodes', 'openhtf.core.measurements'):
    reg.repo.module(m)
  reg.conf(stop_on_first_failure='bool', allow_unset_measurements='bool', cancel_timeout_s='val{int,float}',
           station_id='str')
  reg.shape('TestRecord', dut_id='val{none,str}', station_id='str', start_time_millis='int', end_time_millis='val{none,int}',
            outcome=OUTCOME, outcome_details='own:list[ref:OutcomeDetails]', phases='own:list[ref:PhaseRecord]',
            subtests='own:list[ref:SubtestRecord]', branches='own:list[ref:BranchRecord]',
            checkpoints='own:list[ref:CheckpointRecord]', diagnoses='own:list[ref:Diagnosis]', diagnosers='list',
            log_records='own:list', marginal='val{none,bool}',
            metadata='dict[val]')
  reg.shape('PhaseRecord', outcome=PHASE_OUTCOME, marginal='val{none,bool}', result='opt:ref:PhaseExecutionOutcome',
            name='str', subtest_name='val{none,str}', start_time_millis='int', end_time_millis='val{none,int}',
            measurements='opt:dict[ref:Measurement]', options='opt:ref:PhaseOptions', diagnosers='list',
            diagnosis_results='list', failure_diagnosis_results='list', attachments='dict')
  reg.shape('SubtestRecord', name='str', outcome=SUBTEST_OUTCOME, start_time_millis='int', end_time_millis='val{none,int}',
            marginal='val{none,bool}')
  reg.shape('Diagnosis', is_failure='bool', is_internal='bool')
  reg.shape('OutcomeDetails', code='val{int,str}', description='str')
  reg.shape('PhaseExecutionOutcome', phase_result=PHASE_RESULT)
  reg.shape('ExceptionInfo', exc_type='val{type}', exc_val='ref:object', exc_tb='ref:object')
  reg.shape('TestState', _status='enum:TestState.Status', test_record='ref:TestRecord', running_phase_state='opt:ref:PhaseState',
            test_options='ref:TestOptions', plug_manager='ref:PlugManager', diagnoses_manager='ref:DiagnosesManager',
            execution_uid='str', _running_test_api='opt:ref:object')
  reg.shape('TestOptions', name='str', failure_exceptions='list[val{type}]', default_dut_id='str', stop_on_first_failure='bool',
            diagnosers='list', output_callbacks='list')
  reg.shape('TestExecutor', test_state='opt:ref:TestState', _phase_exec='opt:ref:PhaseExecutor',
            _last_outcome='opt:ref:PhaseExecutionOutcome', _last_execution_unit='val{none,str}',
            _test_options='ref:TestOptions', _test_start='opt:ref:PhaseDescriptor', _test_descriptor='ref:TestDescriptor',
            _run_phases_with_profiling='bool', _abort='ref:event', _full_abort='ref:event', _lock='ref:lock',
            _teardown_phases_lock='ref:rlock', _phase_profile_stats='list', uid='str')

  # ---- trusted: wall clock.  time_millis() is non-negative and never decreases (ghost clock in the registry spec)
  c = reg.contract(UT, 'time_millis', props=())
  c.returns('int').modifies().ensures('positive', 'result > 0')
  c.trusted('wall clock: util.time_millis() returns a positive int')

  # ---- SubscribableStateMixin.notify_update: verified under C18; for the other properties only its frame matters
  c = reg.contract(UT, 'SubscribableStateMixin.notify_update', props=())
  c.modifies()
  c.trusted('frame of notify_update (sets and clears watcher events only); its behaviour is the subject of C18')
