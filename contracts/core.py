"""Shapes of the core record / state classes and trusted contracts shared by the executor properties."""
import z3

from pyvc.values import Val, VInt, VStr, NONE, fresh

TR = 'openhtf/core/test_record.py'
TS = 'openhtf/core/test_state.py'
TE = 'openhtf/core/test_executor.py'
PE = 'openhtf/core/phase_executor.py'
UT = 'openhtf/util/__init__.py'

OUTCOME = 'val{none,enum:test_record.Outcome}'
PHASE_OUTCOME = 'val{none,enum:PhaseOutcome}'
SUBTEST_OUTCOME = 'val{none,enum:SubtestOutcome}'
PHASE_RESULT = 'val{none,enum:PhaseResult,ref:ExceptionInfo,ref:ThreadTerminationError}'


def register(reg):
  for m in ('openhtf.core.test_record', 'openhtf.core.test_state', 'openhtf.core.test_executor', 'openhtf.core.phase_executor',
            'openhtf.core.phase_descriptor', 'openhtf.core.diagnoses_lib', 'openhtf.core.test_descriptor', 'openhtf.util',
            'openhtf.util.threads', 'openhtf.core.phase_collections', 'openhtf.core.phase_branches', 'openhtf.core.phase_group',
            'openhtf.core.phase_nodes', 'openhtf.core.measurements'):
    reg.repo.module(m)
  reg.conf(stop_on_first_failure='bool', allow_unset_measurements='bool', cancel_timeout_s='val{int,float}',
           station_id='str')
  reg.shape('TestRecord', dut_id='val{none,str}', station_id='str', start_time_millis='int', end_time_millis='val{none,int}',
            outcome=OUTCOME, outcome_details='own:list[ref:OutcomeDetails]', phases='own:list[ref:PhaseRecord]',
            subtests='own:list[ref:SubtestRecord]', branches='own:list[ref:BranchRecord]',
            checkpoints='own:list[ref:CheckpointRecord]', diagnoses='own:list[ref:Diagnosis]', diagnosers='list',
            log_records='own:list', marginal='val{none,bool}',
            metadata='dict[val]')
  reg.shape('PhaseRecord', outcome=PHASE_OUTCOME, marginal='val{none,bool}', result='opt:ref:PhaseExecutionOutcome',
            name='str', subtest_name='val{none,str}', start_time_millis='int', end_time_millis='val{none,int}',
            measurements='opt:dict[ref:Measurement]', options='opt:ref:PhaseOptions', diagnosers='list',
            diagnosis_results='own:list', failure_diagnosis_results='own:list', attachments='own:dict')
  reg.shape('SubtestRecord', name='str', outcome=SUBTEST_OUTCOME, start_time_millis='int', end_time_millis='val{none,int}',
            marginal='val{none,bool}')
  reg.shape('Diagnosis', is_failure='bool', is_internal='bool')
  reg.shape('OutcomeDetails', code='val{int,str}', description='str')
  reg.shape('PhaseExecutionOutcome', phase_result=PHASE_RESULT)
  reg.shape('ExceptionInfo', exc_type='val{type}', exc_val='ref:object', exc_tb='ref:object')
  reg.shape('TestState', _status='enum:TestState.Status', test_record='ref:TestRecord', running_phase_state='opt:ref:PhaseState',
            test_options='ref:TestOptions', plug_manager='ref:PlugManager', diagnoses_manager='ref:DiagnosesManager',
            execution_uid='str', _running_test_api='opt:ref:object')
  reg.shape('TestOptions', name='str', failure_exceptions='list[val{type}]', default_dut_id='str', stop_on_first_failure='bool',
            diagnosers='list', output_callbacks='list')
  reg.shape('TestExecutor', test_state='opt:ref:TestState', _phase_exec='opt:ref:PhaseExecutor',
            _last_outcome='opt:ref:PhaseExecutionOutcome', _last_execution_unit='val{none,str}',
            _test_options='ref:TestOptions', _test_start='opt:ref:PhaseDescriptor', _test_descriptor='ref:TestDescriptor',
            _run_phases_with_profiling='bool', _abort='ref:event', _full_abort='ref:event', _lock='ref:lock',
            _teardown_phases_lock='ref:rlock', _phase_profile_stats='own:list', uid='str')

  register_executor_callees(reg)

  c = reg.contract('openhtf/util/data.py', 'convert_to_base_types', props=())
  c.param('obj', 'val').param('ignore_keys', 'val').param('tuple_type', 'val').param('json_safe', 'bool').returns('val').modifies()
  c.trusted('rendering to base types does not modify the record (its result is the subject of C10)')

  # ---- trusted: wall clock.  time_millis() is non-negative and never decreases (ghost clock in the registry spec)
  c = reg.contract(UT, 'time_millis', props=())
  c.returns('int').modifies().ensures('positive', 'result > 0')
  c.trusted('wall clock: util.time_millis() returns a positive int')

  # ---- SubscribableStateMixin.notify_update: verified under C18; for the other properties only its frame matters
  c = reg.contract(UT, 'SubscribableStateMixin.notify_update', props=())
  c.modifies()
  c.trusted('frame of notify_update (sets and clears watcher events only); its behaviour is the subject of C18')


def register_executor_callees(reg):
  """Contracts of the functions the test executor calls (verified under C05 / C08; assumed at the executor's call sites)."""
  PL = 'openhtf/plugs/__init__.py'
  reg.repo.module('openhtf.plugs')
  reg.shape('PhaseExecutor', test_state='ref:TestState', _stopping='ref:event', _current_phase_thread='opt:ref:PhaseExecutorThread',
            _current_phase_thread_lock='ref:lock')
  reg.shape('PhaseDescriptor', options='ref:PhaseOptions', func_location='str', plugs='list', measurements='list',
            diagnosers='list', func='fn:phase_body', extra_kwargs='dict', code_info='ref:object')
  reg.shape('PhaseOptions', name='val{none,str,fn}', timeout_s='val{none,int,float}', run_if='opt:fn:run_if', requires_state='bool',
            force_repeat='bool', repeat_on_measurement_fail='bool', repeat_on_timeout='bool', repeat_limit='val{none,int}',
            run_under_pdb='bool', stop_on_measurement_fail='bool')
  reg.shape('PlugManager', _plugs_by_type='dict', _plugs_by_name='dict', _plug_types='set')
  reg.shape('Checkpoint', name='str', action='enum:PhaseResult')
  reg.invariant('PhaseOptions', '(self.timeout_s is None or (self.timeout_s >= 0 and self.timeout_s < 2**60)) and '
                '(self.repeat_limit is None or self.repeat_limit >= 0)')
  records = 'self.test_state.test_record.phases'
  grows = ('len({r}) >= old(len({r})) and forall_int(lambda j: implies(0 <= j and j < old(len({r})), '
           '{r}[j] is old(content({r}))[j]))').format(r=records)
  new_have_outcome = ('forall_int(lambda j: implies(old(len({r})) <= j and j < len({r}), {r}[j].outcome is not None))'
                      ).format(r=records)

  PD = 'openhtf/core/phase_descriptor.py'
  c = reg.contract(PD, 'PhaseDescriptor.name', props=())
  c.returns('str').modifies().function_of('self')
  c.trusted('the display name of a phase is a pure function of the descriptor (string case conversion not modelled)')

  c = reg.contract(PE, 'PhaseExecutor.execute_phase', props=['C05'])
  c.param('phase', 'ref:PhaseDescriptor').param('run_with_profiling', 'bool').param('subtest_rec', 'opt:ref:SubtestRecord')
  c.returns('ptuple(ref:PhaseExecutionOutcome;val{none,ref:object})')
  c.ensures('records_only_appended', grows)
  c.ensures('new_records_have_outcomes', new_have_outcome)
  c.ensures('fail_subtest_only_in_subtest', 'implies(result[0].is_fail_subtest, subtest_rec is not None)')
  c.ensures('error_record_means_terminal_result',
            ('forall_int(lambda j: implies(old(len({r})) <= j and j < len({r}) and {r}[j].outcome is test_record.PhaseOutcome.ERROR, '
             'result[0].is_terminal))').format(r=records))
  c.modifies('list(%s)' % records, 'self.test_state.running_phase_state', 'self.test_state._running_test_api',
             'self._current_phase_thread', 'PhaseRecord.outcome', 'PhaseRecord.result', 'PhaseRecord.marginal',
             'PhaseRecord.end_time_millis', 'PhaseRecord.start_time_millis', 'PhaseRecord.options', 'PhaseRecord.measurements',
             'PhaseRecord.subtest_name', 'self.test_state.test_record.dut_id', 'list(self.test_state.test_record.diagnoses)',
             'list(self.test_state.test_record.log_records)')
  c.trusted('verified separately (C05 units); here only its contract is used')

  c = reg.contract(PE, 'PhaseExecutor.skip_phase', props=['C05'])
  c.param('phase_desc', 'ref:PhaseDescriptor').param('subtest_rec', 'opt:ref:SubtestRecord')
  c.ensures('one_skip_record', ('len({r}) == old(len({r})) + 1 and {r}[len({r}) - 1].outcome is test_record.PhaseOutcome.SKIP and '
                                'forall_int(lambda j: implies(0 <= j and j < old(len({r})), {r}[j] is old(content({r}))[j]))').format(r=records))
  c.modifies('list(%s)' % records, 'self.test_state.running_phase_state', 'self.test_state._running_test_api',
             'PhaseRecord.outcome', 'PhaseRecord.result', 'PhaseRecord.marginal', 'PhaseRecord.end_time_millis',
             'PhaseRecord.start_time_millis', 'PhaseRecord.options', 'PhaseRecord.measurements', 'PhaseRecord.subtest_name')
  c.trusted('verified separately (C05 units); here only its contract is used')

