"""C02 / C03 - node execution order, skips, branches, checkpoints; group teardown."""
from contracts.core import TE, PE

PB = 'openhtf/core/phase_branches.py'
PO = 'test_record.PhaseOutcome'


def register(reg):
  reg.shape('DiagnosisCondition', condition='enum:ConditionOn', diagnosis_results='tuple')
  reg.shape('DiagnosesStore', _diagnoses_by_results='dict', _diagnoses='list')
  reg.shape('BranchSequence', diag_condition='ref:DiagnosisCondition')
  reg.shape('PhaseSequence', nodes='tuple[ref:PhaseNode]', name='val{none,str}')
  reg.shape('PhaseFailureCheckpoint', previous_phases_to_check='enum:PreviousPhases')
  reg.shape('DiagnosisCheckpoint', diag_condition='ref:DiagnosisCondition')
  reg.prop_meta['C02'] = {
      'not_decided': [],
      'bounded': [],
      'assumptions': ['the node tree is finite (no group / sequence contains itself): the recursive calls to _execute_node are '
                      'used by contract (structural induction)'],
  }
  has = 'diag_store.has_diagnosis_result(d)'
  c = reg.contract(PB, 'DiagnosisCondition.check', props=['C02'])
  c.param('diag_store', 'ref:DiagnosesStore').returns('bool').modifies()
  C = 'ConditionOn'
  c.ensures('ALL', 'implies(self.condition is %s.ALL, result == all(%s for d in self.diagnosis_results))' % (C, has))
  c.ensures('ANY', 'implies(self.condition is %s.ANY, result == any(%s for d in self.diagnosis_results))' % (C, has))
  c.ensures('NOT_ANY', 'implies(self.condition is %s.NOT_ANY, result == (not any(%s for d in self.diagnosis_results)))' % (C, has))
  c.ensures('NOT_ALL', 'implies(self.condition is %s.NOT_ALL, result == (not all(%s for d in self.diagnosis_results)))' % (C, has))

  c = reg.contract(PB, 'BranchSequence.should_run', props=['C02'])
  c.param('diag_store', 'ref:DiagnosesStore').returns('bool').modifies().function_of('self', 'content(diag_store._diagnoses_by_results)')
  c.trusted('delegates to DiagnosisCondition.check (verified above); a pure function of the condition and the stored results')

  recs = 'running_test_state.test_record.phases'
  failed = lambda r: '%s.outcome is %s.FAIL' % (r, PO)
  c = reg.contract(PB, 'PhaseFailureCheckpoint._check_for_action', props=['C02'])
  c.param('running_test_state', 'ref:TestState').param('subtest_rec', 'opt:ref:SubtestRecord').returns('bool').modifies()
  c.raises('NoPhasesFoundError', when='len(%s) == 0' % recs)
  c.ensures('has_phases', 'len(%s) > 0' % recs)
  PP = 'PreviousPhases'
  c.ensures('LAST', 'implies(self.previous_phases_to_check is %s.LAST, result == (%s))' % (PP, failed('%s[len(%s) - 1]' % (recs, recs))))
  c.ensures('SUBTEST', 'implies(self.previous_phases_to_check is %s.SUBTEST and subtest_rec is not None, '
            'result == any(p.subtest_name == subtest_rec.name and %s for p in %s))' % (PP, failed('p'), recs))
  c.ensures('ALL', 'implies(self.previous_phases_to_check is %s.ALL or (self.previous_phases_to_check is %s.SUBTEST and subtest_rec is None), '
            'result == any(%s for p in %s))' % (PP, PP, failed('p'), recs))
  register_structure(reg)
  register_rules(reg)
  register_sequences(reg)
  register_checkpoints(reg)
  register_stop(reg)
  register_abort(reg)
  reg.replayers['PhaseFailureCheckpoint._check_for_action'] = replay_check_for_action
  for hdr in ('for phase_rec in phase_records',):
    c.loop(hdr, inv=[('none_failed_so_far',
                      'forall_int(lambda j: implies(0 <= j and j < _i, not (%s and (subtest_rec is None or not (self.previous_phases_to_check is %s.SUBTEST) '
                      'or phase_records[j].subtest_name == subtest_rec.name))))' % (failed('phase_records[j]'), PP))],
           modifies=[])


# --------------------------------------------------------------------------------------------------------------------
# executor structure: every handler (and _execute_node, which dispatches to them) satisfies the generic node contract GEN;
# the callers' rules (which children are invoked, in which order, with which arguments) are stated over the ghost call
# log that the contract of _execute_node appends to.
# --------------------------------------------------------------------------------------------------------------------
ER = '_ExecutorReturn'
LIVE = 'self.test_state is not None and self._phase_exec is not None and self._phase_exec.test_state is self.test_state'
TERM = 'self._last_outcome is not None and self._last_outcome.is_terminal'
LO_INV = 'self._last_outcome is None or self._last_outcome.is_terminal'
RECS = 'self.test_state.test_record.phases'
GEN_MODIFIES = ['self._last_outcome', 'self._last_execution_unit', 'subtest_rec.outcome',
                'list(self._phase_profile_stats)', 'list(self.test_state.test_record.phases)',
                'list(self.test_state.test_record.subtests)', 'list(self.test_state.test_record.branches)',
                'list(self.test_state.test_record.checkpoints)', 'self.test_state.running_phase_state',
                'self.test_state._running_test_api', 'self._phase_exec._current_phase_thread', '*user',
                'threading.Thread.alive', 'DiagnosesStore._diagnoses_by_results', 'DiagnosesStore._diagnoses',
                'list(self.test_state.test_record._cached_phases)', 'list(self.test_state.test_record._cached_subtests)',
                'list(self.test_state.test_record._cached_branches)', 'list(self.test_state.test_record._cached_checkpoints)',
                'Measurement.outcome', 'Measurement.marginal', 'Measurement._notification_cb']


def gen(c, node_param, node_kind):
  """The generic node contract."""
  c.param(node_param, node_kind).param('subtest_rec', 'opt:ref:SubtestRecord').param('in_teardown', 'bool')
  c.returns('enum:' + ER)
  c.ghost('diag_calls', 'int').ghost('body_starts', 'int')
  c.requires('running', LIVE).requires('remembered_outcome_is_terminal', LO_INV)
  c.requires('no_phase_running', 'self.test_state.running_phase_state is None')
  c.requires('not_profiling', 'not self._run_phases_with_profiling')
  c.ensures('remembered_outcome_is_terminal', LO_INV)
  c.ensures('first_terminal_event_decides', 'implies(old(self._last_outcome) is not None, self._last_outcome is old(self._last_outcome))')
  c.ensures('TERMINAL_has_a_reason', 'implies(result is %s.TERMINAL, (%s) or self._abort.is_set() or self._full_abort.is_set())' % (ER, TERM))
  c.ensures('a_failed_subtest_stays_failed',
            'implies(subtest_rec is not None and old(subtest_rec.outcome) is test_record.SubtestOutcome.FAIL, '
            'subtest_rec.outcome is test_record.SubtestOutcome.FAIL)')
  c.ensures('FAIL_SUBTEST_stays_in_its_subtest',
            'implies(subtest_rec is not None, subtest_rec.outcome is old(subtest_rec.outcome) or subtest_rec.outcome is test_record.SubtestOutcome.FAIL)')
  c.ensures('records_only_appended', 'len({r}) >= old(len({r})) and forall_int(lambda j: implies(0 <= j and j < old(len({r})), {r}[j] is old(content({r}))[j]))'.format(r=RECS))
  for lst in ('subtests', 'branches', 'checkpoints'):
    c.ensures('%s_only_appended' % lst, 'len(self.test_state.test_record.%s) >= old(len(self.test_state.test_record.%s))' % (lst, lst))
  c.ensures('phase_slot_released', 'self.test_state.running_phase_state is None')
  c.ensures('abort_flags_are_never_cleared', 'implies(old(self._abort.is_set()), self._abort.is_set()) and implies(old(self._full_abort.is_set()), self._full_abort.is_set())')
  c.modifies(*GEN_MODIFIES)


def register_structure(reg):
  from pyvc.values import VInt, VBool
  reg.shape('TestRecord', _cached_subtests='own:list', _cached_branches='own:list', _cached_checkpoints='own:list')
  reg.shape('PhaseGroup', setup='opt:ref:PhaseSequence', main='opt:ref:PhaseSequence', teardown='opt:ref:PhaseSequence', name='val{none,str}')
  reg.shape('BranchRecord', name='val{none,str}', diag_condition='ref:DiagnosisCondition', branch_taken='bool', evaluated_millis='int')
  reg.invariant('Subtest', 'self.name is not None')
  # assumed: a PhaseSequence only holds nodes of the concrete node types (established by _recursive_flatten / the attrs
  # validators at construction; constructors are not under contract)
  reg.invariant('PhaseSequence', 'forall_int(lambda j: implies(0 <= j and j < len(self.nodes), isinstance(self.nodes[j], '
                "(class_named('PhaseSequence'), class_named('PhaseGroup'), class_named('PhaseDescriptor'), class_named('Checkpoint')))))")
  reg.private('PhaseSequence', 'nodes', 'name')
  reg.private('PhaseGroup', 'setup', 'main', 'teardown', 'name')
  reg.private('BranchSequence', 'diag_condition')
  reg.private('TestRecord', '_cached_phases', '_cached_subtests', '_cached_branches', '_cached_checkpoints')


  # ---- the call log: one entry per call of _execute_node (node, subtest_rec, in_teardown, result)
  def log_call(ex, st, env, result):
    for name, v in (('calls_node', env['node']), ('calls_st', env['subtest_rec']), ('calls_td', env['in_teardown']), ('calls_ret', result)):
      if name in st.ghost and v is not None:
        ex.list_append(st, st.ghost[name], v)
    if '$need_abort_check' in st.ghost:
      from pyvc.state import Obligation
      import z3
      abort_t = ex.read_field(st, env['self'], '_abort').t
      checked = any(ev[0] == 'event.is_set' and z3.simplify(ev[1] == abort_t).__bool__() if z3.is_true(z3.simplify(ev[1] == abort_t)) or z3.is_false(z3.simplify(ev[1] == abort_t)) else False
                    for ev in st.ghost.get('$trace', ()))
      ex.ctx.obligations.append(Obligation('%s/order.the_abort_flag_is_read_before_every_node_is_dispatched' % ex.ctx.unit, 'order', list(st.pc),
                                           z3.BoolVal(bool(checked)), '', {'msg': 'node dispatched without a preceding read of _abort in this iteration'}))
    if '$need_teardown_lock' in st.ghost:
      from pyvc.state import Obligation
      import z3
      td = env['in_teardown']
      held = any('_teardown_phases_lock' in l for l in st.locks)
      ex.ctx.obligations.append(Obligation('%s/lock.teardown_nodes_run_under_the_teardown_lock' % ex.ctx.unit, 'lock', st.pc,
                                           z3.BoolVal(held), '', {'msg': 'teardown node executed without _teardown_phases_lock'}))

  c = reg.contract(TE, 'TestExecutor._execute_node', props=['C02', 'C03'])
  gen(c, 'node', 'ref:PhaseNode')
  c.ghost('handler', 'int')
  c.hooks['after_call'] = log_call
  hid = ("(1 if isinstance(node, phase_collections.Subtest) else 2 if isinstance(node, phase_branches.BranchSequence) else "
         "3 if isinstance(node, phase_collections.PhaseSequence) else 4 if isinstance(node, phase_group.PhaseGroup) else "
         "5 if isinstance(node, phase_descriptor.PhaseDescriptor) else 6 if isinstance(node, phase_branches.Checkpoint) else 0)")
  c.ensures('most_specific_handler', "ghost('handler') == %s" % hid)
  c.option(dispatch_only=True)

  def set_handler(k):
    def hook(ex, st, env, result):
      if 'handler' in st.ghost:
        st.ghost['handler'] = VInt(k)
    return hook

  for k, (fn, param, kind) in enumerate([
      ('_execute_subtest', 'subtest', 'ref:Subtest'), ('_execute_phase_branch', 'branch', 'ref:BranchSequence'),
      ('_execute_sequence', 'phase_sequence', 'ref:PhaseSequence'), ('_execute_phase_group', 'group', 'ref:PhaseGroup')], 1):
    c = reg.contract(TE, 'TestExecutor.' + fn, props=['C02', 'C03'])
    gen(c, param, kind)
    if fn == '_execute_subtest':
      c.params['outer_subtest_rec'] = c.params.pop('subtest_rec')
      c.modifies_ = [m for m in c.modifies_ if m != 'subtest_rec.outcome']      # the outer record is never written
      c.requires_ = [(n, e.replace('subtest_rec', 'outer_subtest_rec')) for n, e in c.requires_]
      c.ensures_ = [(n, e.replace('subtest_rec', 'outer_subtest_rec')) for n, e in c.ensures_]
    if fn == '_execute_sequence':
      c.param('override_message', 'val{none,str}')
    c.hooks['after_call'] = set_handler(k)
  # the two leaf handlers have their contracts in c01.py; give them the dispatch hook as well
  for k, name in ((5, 'TestExecutor._execute_phase'), (6, 'TestExecutor._execute_checkpoint')):
    for cc in reg.contracts:
      if cc.name == name:
        cc.hooks['after_call'] = set_handler(k)


def _logger(prefix, node_param):
  """after_call hook: append (node, subtest_rec, in_teardown, result) of this call to the ghost log `prefix.*` if the
  unit under verification declared it."""
  def hook(ex, st, env, result):
    from pyvc.values import VInt
    if prefix + '.n' not in st.ghost:
      return
    import z3
    from pyvc.values import VSeq
    n = st.ghost[prefix + '.n'].t
    st_arg = env.get('subtest_rec', env.get('outer_subtest_rec'))
    for suffix, v in (('node', env[node_param]), ('st', st_arg), ('td', env['in_teardown']), ('ret', result)):
      key = '%s.%s' % (prefix, suffix)
      st.ghost[key] = VSeq(z3.Store(st.ghost[key].t, n, ex.to_val(st, v)))
    st.ghost[prefix + '.n'] = VInt(n + 1)
  return hook


def _declare_log(c, prefix):
  c.ghost(prefix + '.n', 'int')
  for suffix in ('node', 'st', 'td', 'ret'):
    c.ghost('%s.%s' % (prefix, suffix), 'seq')
  c.requires('log_%s_consistent' % prefix, "ghost('%s.n') >= 0" % prefix)


def _chain(*hooks):
  def hook(ex, st, env, result):
    for h in hooks:
      if h:
        h(ex, st, env, result)
  return hook


def register_rules(reg):
  by = {c.name: c for c in reg.contracts}
  seq, node, grp, sub, br = (by['TestExecutor.' + n] for n in ('_execute_sequence', '_execute_node', '_execute_phase_group',
                                                               '_execute_subtest', '_execute_phase_branch'))
  seq.hooks['after_call'] = _chain(seq.hooks.get('after_call'), _logger('seq', 'phase_sequence'))
  node.hooks['after_call'] = _chain(node.hooks.get('after_call'), _logger('node', 'node'))
  failing0 = 'subtest_rec is not None and old(subtest_rec.outcome) is test_record.SubtestOutcome.FAIL'
  n0, n1 = "old(ghost('seq.n'))", "ghost('seq.n')"

  # ---------------------------------------------------------------- branch
  _declare_log(br, 'seq')
  B = 'self.test_state.test_record.branches'
  skipped = 'not in_teardown and %s' % failing0
  taken0 = 'old(branch.should_run(self.test_state.diagnoses_manager.store))'
  br.ensures('skipped_branch_leaves_no_trace', 'implies(%s, result is %s.CONTINUE and len(%s) == old(len(%s)) and %s == %s)' % (skipped, ER, B, B, n1, n0))
  br.ensures('branch_record_written_after_its_children', 'implies(not (%s), len(%s) > old(len(%s)) and %s[len(%s) - 1].diag_condition is branch.diag_condition)' % (skipped, B, B, B, B))
  br.ensures('record_tells_whether_the_branch_ran', 'implies(not (%s), %s[len(%s) - 1].branch_taken == %s)' % (skipped, B, B, taken0))
  br.ensures('runs_iff_condition_holds', 'implies(not (%s), %s == %s + (1 if %s else 0))' % (skipped, n1, n0, taken0))
  br.ensures('runs_its_own_sequence', "implies(not (%s) and %s, ghost('seq.node')[%s - 1] is branch and same(ghost('seq.st')[%s - 1], subtest_rec) and "
             "ghost('seq.td')[%s - 1] == in_teardown and result is ghost('seq.ret')[%s - 1])" % (skipped, taken0, n1, n1, n1, n1))
  br.ensures('not_taken_continues', 'implies(not (%s) and not %s, result is %s.CONTINUE)' % (skipped, taken0, ER))

  # ---------------------------------------------------------------- subtest
  _declare_log(sub, 'seq')
  S = 'self.test_state.test_record.subtests'
  new = '%s[len(%s) - 1]' % (S, S)
  outer_failing0 = 'outer_subtest_rec is not None and old(outer_subtest_rec.outcome) is test_record.SubtestOutcome.FAIL'
  sub.ensures('record_written_after_its_children', 'len(%s) > old(len(%s)) and is_fresh(%s) and %s.name == subtest.name' % (S, S, new, new))
  sub.ensures('inner_sequence_runs_once_with_the_new_record',
              "%s == %s + 1 and ghost('seq.node')[%s - 1] is subtest and same(ghost('seq.st')[%s - 1], %s) and ghost('seq.td')[%s - 1] == in_teardown"
              % (n1, n0, n1, n1, new, n1))
  sub.ensures('result_is_the_inner_result', "result is ghost('seq.ret')[%s - 1]" % n1)
  sub.ensures('STOP_iff_terminal', '(%s.outcome is test_record.SubtestOutcome.STOP) == (result is %s.TERMINAL)' % (new, ER))
  sub.ensures('inherits_outer_failure', 'implies(%s and result is not %s.TERMINAL, %s.outcome is test_record.SubtestOutcome.FAIL)' % (outer_failing0, ER, new))
  sub.ensures('FAIL_SUBTEST_never_escapes', 'implies(outer_subtest_rec is not None, outer_subtest_rec.outcome is old(outer_subtest_rec.outcome))')

  # ---------------------------------------------------------------- group (C03)
  _declare_log(grp, 'seq')
  call = lambda k: "ghost('seq.node')[%s + %s]" % (n0, k)
  has = lambda part: 'group.%s is not None' % part      # a PhaseSequence object is always truthy
  grp.ensures('setup_gate',
              "implies(%s and %s >= %s + 1 and ghost('seq.ret')[%s] is not %s.CONTINUE, %s == %s + 1 and result is ghost('seq.ret')[%s])"
              % (has('setup'), n1, n0, n0, ER, n1, n0, n0))
  for part, td_expected in (('setup', 'in_teardown'), ('main', 'in_teardown')):
    pass
  entered = ("(not (%s) or ghost('seq.ret')[%s] is %s.CONTINUE)" % (has('setup'), n0, ER))
  n_setup = '(1 if %s else 0)' % has('setup')
  n_main = '(1 if %s else 0)' % has('main')
  n_td = '(1 if %s else 0)' % has('teardown')
  grp.ensures('each_part_runs_exactly_once_when_entered', 'implies(%s, %s == %s + %s + %s + %s)' % (entered, n1, n0, n_setup, n_main, n_td))
  grp.ensures('teardown_runs_last_with_the_callers_record',
              "implies(%s and %s, ghost('seq.node')[%s - 1] is group.teardown and same(ghost('seq.st')[%s - 1], subtest_rec))"
              % (entered, has('teardown'), n1, n1))
  grp.ensures('main_runs_with_the_callers_mode',
              "implies(%s and %s, ghost('seq.node')[%s + %s] is group.main and ghost('seq.td')[%s + %s] == in_teardown)"
              % (entered, has('main'), n0, n_setup, n0, n_setup))
  # the statement's rule: an entered group is torn down (teardown nodes run as teardown); a group reached after the
  # subtest failed is skipped entirely -- unless it is itself part of a running teardown
  failing_entry = '(subtest_rec is not None and old(subtest_rec.outcome) is test_record.SubtestOutcome.FAIL)'
  grp.ensures('teardown_mode_in_a_running_teardown',
              "implies(%s and %s and in_teardown, ghost('seq.td')[%s - 1] == True)" % (entered, has('teardown'), n1))
  grp.ensures('teardown_mode_of_an_entered_group',
              "implies(%s and %s and not %s and not (%s), ghost('seq.td')[%s - 1] == True)" % (entered, has('teardown'), failing_entry, has('setup'), n1))
  grp.ensures('teardown_of_a_group_reached_after_failure_only_records_skips',
              "implies(%s and %s and %s and not in_teardown, ghost('seq.td')[%s - 1] == False)" % (entered, has('teardown'), failing_entry, n1))
  grp.ensures('result_is_the_most_critical',
              "implies(%s, (result is %s.TERMINAL) == ((%s and ghost('seq.ret')[%s + %s] is %s.TERMINAL) or (%s and ghost('seq.ret')[%s - 1] is %s.TERMINAL)))"
              % (entered, ER, has('main'), n0, n_setup, ER, has('teardown'), n1, ER))


def register_sequences(reg):
  by = {c.name: c for c in reg.contracts}
  node = by['TestExecutor._execute_node']
  node.requires('known_node_type',
                'isinstance(node, (phase_collections.PhaseSequence, phase_group.PhaseGroup, phase_descriptor.PhaseDescriptor, phase_branches.Checkpoint))')
  seq = by['TestExecutor._execute_sequence']
  nodes = 'phase_sequence.nodes'
  n0, n1 = "old(ghost('node.n'))", "ghost('node.n')"
  recs = lambda l: 'self.test_state.test_record.%s' % l

  def loop_frame_inv():
    inv = [('remembered_outcome_is_terminal', LO_INV),
           ('first_terminal_event_decides', 'implies(old(self._last_outcome) is not None, self._last_outcome is old(self._last_outcome))'),
           ('a_failed_subtest_stays_failed', 'implies(subtest_rec is not None and old(subtest_rec.outcome) is test_record.SubtestOutcome.FAIL, '
            'subtest_rec.outcome is test_record.SubtestOutcome.FAIL)'),
           ('FAIL_SUBTEST_stays_in_its_subtest', 'implies(subtest_rec is not None, subtest_rec.outcome is old(subtest_rec.outcome) or '
            'subtest_rec.outcome is test_record.SubtestOutcome.FAIL)'),
           ('records_only_appended', 'len({r}) >= old(len({r})) and forall_int(lambda j: implies(0 <= j and j < old(len({r})), {r}[j] is old(content({r}))[j]))'.format(r=RECS)),
           ('phase_slot_released', 'self.test_state.running_phase_state is None'),
           ('abort_flags_are_never_cleared', 'implies(old(self._abort.is_set()), self._abort.is_set()) and implies(old(self._full_abort.is_set()), self._full_abort.is_set())')]
    for l in ('subtests', 'branches', 'checkpoints'):
      inv.append(('%s_only_appended' % l, 'len(%s) >= old(len(%s))' % (recs(l), recs(l))))
    return inv

  def seq_contract(fn, td_value, props):
    c = reg.contract(TE, 'TestExecutor.' + fn, props=props)
    c.param('phase_sequence', 'ref:PhaseSequence').param('subtest_rec', 'opt:ref:SubtestRecord')
    c.returns('enum:' + ER)
    c.ghost('diag_calls', 'int').ghost('body_starts', 'int')
    c.requires('running', LIVE).requires('remembered_outcome_is_terminal', LO_INV)
    c.requires('no_phase_running', 'self.test_state.running_phase_state is None')
    c.requires('not_profiling', 'not self._run_phases_with_profiling')
    for n, e in loop_frame_inv()[:7]:
      c.ensures(n, e)
    for l in ('subtests', 'branches', 'checkpoints'):
      c.ensures('%s_only_appended' % l, 'len(%s) >= old(len(%s))' % (recs(l), recs(l)))
    c.ensures('TERMINAL_has_a_reason', 'implies(result is %s.TERMINAL, (%s) or self._abort.is_set() or self._full_abort.is_set())' % (ER, TERM))
    c.modifies(*GEN_MODIFIES)
    _declare_log(c, 'node')
    k = '(%s - %s)' % (n1, n0)
    c.ensures('children_in_order', ("%s >= 0 and %s <= len(%s) and forall_int(lambda j: implies(0 <= j and j < %s, "
                                    "ghost('node.node')[%s + j] is %s[j] and same(ghost('node.st')[%s + j], subtest_rec) and "
                                    "ghost('node.td')[%s + j] == %s))") % (k, k, nodes, k, n0, nodes, n0, n0, td_value))
    logs = []
    common = [('count', "%s == %s + _i" % (n1, n0)),
              ('children_in_order', ("forall_int(lambda j: implies(0 <= j and j < _i, ghost('node.node')[%s + j] is %s[j] and "
                                     "same(ghost('node.st')[%s + j], subtest_rec) and ghost('node.td')[%s + j] == %s))") % (n0, nodes, n0, n0, td_value))]
    return c, common, logs

  # ---------------------------------------------------------------- abortable sequence: stops at the first non-CONTINUE node
  c, common, logs = seq_contract('_execute_abortable_sequence', 'False', ['C02', 'C03', 'C04'])
  c.setup(lambda ex, st, made: st.ghost.__setitem__('$need_abort_check', True))
  k = '(%s - %s)' % (n1, n0)
  c.ensures('stops_at_the_first_non_CONTINUE_node',
            "forall_int(lambda j: implies(0 <= j and j < %s - 1, ghost('node.ret')[%s + j] is %s.CONTINUE))" % (k, n0, ER))
  c.ensures('CONTINUE_means_every_node_ran', 'implies(result is %s.CONTINUE, %s == len(%s))' % (ER, k, nodes))
  c.ensures('result_is_the_last_childs', "implies(%s > 0 and result is not %s.CONTINUE and not self._abort.is_set(), result is ghost('node.ret')[%s - 1])" % (k, ER, n1))
  c.loop('for node in phase_sequence.nodes',
         inv=loop_frame_inv() + common + [
             ('all_previous_children_continued', "forall_int(lambda j: implies(0 <= j and j < _i, ghost('node.ret')[%s + j] is %s.CONTINUE))" % (n0, ER))],
         modifies=GEN_MODIFIES + logs)

  # ---------------------------------------------------------------- teardown sequence: every node runs, most critical result
  c, common, logs = seq_contract('_execute_teardown_sequence', 'True', ['C02', 'C03'])
  c.setup(lambda ex, st, made: st.ghost.__setitem__('$need_teardown_lock', True))
  c.ensures('every_teardown_node_runs', 'implies(not self._full_abort.is_set(), %s == len(%s))' % (k, nodes))
  c.ensures('a_terminal_teardown_node_still_propagates',
            "forall_int(lambda j: implies(0 <= j and j < %s and ghost('node.ret')[%s + j] is %s.TERMINAL, result is %s.TERMINAL))" % (k, n0, ER, ER))
  c.loop('for node in phase_sequence.nodes',
         inv=loop_frame_inv() + common + [
             ('most_critical_so_far', "forall_int(lambda j: implies(0 <= j and j < _i and ghost('node.ret')[%s + j] is %s.TERMINAL, ret is %s.TERMINAL))" % (n0, ER, ER)),
             ('ret_has_a_reason', 'implies(ret is %s.TERMINAL, (%s) or self._abort.is_set() or self._full_abort.is_set())' % (ER, TERM))],
         modifies=GEN_MODIFIES + logs, vars={'ret': 'enum:_ExecutorReturn'})

  # _execute_sequence: teardown mode selects the teardown loop
  for name, k_ in (('_execute_abortable_sequence', 1), ('_execute_teardown_sequence', 2)):
    cc = by.get('TestExecutor.' + name) or [x for x in reg.contracts if x.name == 'TestExecutor.' + name][0]
    def mk(kk):
      def hook(ex, st, env, result):
        from pyvc.values import VInt
        if 'seqkind' in st.ghost:
          st.ghost['seqkind'] = VInt(kk)
      return hook
    cc.hooks['after_call'] = _chain(cc.hooks.get('after_call'), mk(k_))
  seq.ghost('seqkind', 'int')
  _declare_log(seq, 'node')
  seq.ensures('teardown_sequences_are_not_abortable', "ghost('seqkind') == (2 if in_teardown else 1)")


# --------------------------------------------------------------------------------------------------------------------
# checkpoints: a checkpoint yields its action iff its condition holds; each evaluation is recorded exactly once
# --------------------------------------------------------------------------------------------------------------------
PP = "class_named('PreviousPhases')"
CO = "class_named('ConditionOn')"
PR = "class_named('PhaseResult')"
PO2 = "class_named('PhaseOutcome')"


def triggered_pf(cp, ts, sr):
  recs = '%s.test_record.phases' % ts
  failed = lambda r: '%s.outcome is %s.FAIL' % (r, PO2)
  pf = "cast(%s, class_named('PhaseFailureCheckpoint'))" % cp
  return ('(({last}) if {pf}.previous_phases_to_check is {PP}.LAST else '
          '(any(p.subtest_name == {sr}.name and {fp} for p in {recs}) if ({pf}.previous_phases_to_check is {PP}.SUBTEST and {sr} is not None) '
          'else any({fp} for p in {recs})))').format(last=failed('%s[len(%s) - 1]' % (recs, recs)), pf=pf, PP=PP, sr=sr, fp=failed('p'), recs=recs)


def triggered_diag(cp, ts):
  cond = "cast(%s, class_named('DiagnosisCheckpoint')).diag_condition" % cp
  has = '%s.diagnoses_manager.store.has_diagnosis_result(d)' % ts
  q = lambda f: '%s(%s for d in %s.diagnosis_results)' % (f, has, cond)
  return ('(({all}) if {c}.condition is {CO}.ALL else ({any}) if {c}.condition is {CO}.ANY else '
          '(not {any}) if {c}.condition is {CO}.NOT_ANY else (not {all}))').format(all=q('all'), any=q('any'), c=cond, CO=CO)


def register_checkpoints(reg):
  reg.shape('CheckpointRecord', name='str', action='enum:PhaseResult', conditional='val', subtest_name='val{none,str}',
            result='ref:PhaseExecutionOutcome', evaluated_millis='int')
  reg.shape('SubtestRecord', name='str')
  # assumed: the attrs validator of Checkpoint.action (constructors are not under contract)
  reg.invariant('Checkpoint', "self.action is class_named('PhaseResult').STOP or self.action is class_named('PhaseResult').FAIL_SUBTEST")
  reg.private('Checkpoint', 'name', 'action')
  reg.private('PhaseFailureCheckpoint', 'previous_phases_to_check')
  reg.private('DiagnosisCheckpoint', 'diag_condition')
  reg.private('DiagnosisCondition', 'condition', 'diagnosis_results')
  is_pf = "isinstance({0}, class_named('PhaseFailureCheckpoint'))"
  is_dc = "isinstance({0}, class_named('DiagnosisCheckpoint'))"

  c = reg.contract(PB, 'DiagnosisCheckpoint._check_for_action', props=['C02'])
  c.param('running_test_state', 'ref:TestState').param('subtest_rec', 'opt:ref:SubtestRecord').returns('bool').modifies()
  c.ensures('condition_on_the_stored_results', 'result == %s' % triggered_diag('self', 'running_test_state'))

  c = reg.contract(PB, 'Checkpoint.get_result', props=['C02'])
  c.param('running_test_state', 'ref:TestState').param('subtest_rec', 'opt:ref:SubtestRecord').returns('enum:PhaseResult').modifies()
  c.requires('concrete_checkpoint', '%s or %s' % (is_pf.format('self'), is_dc.format('self')))
  c.raises('NoPhasesFoundError', when='%s and len(running_test_state.test_record.phases) == 0' % is_pf.format('self'))
  c.ensures('action_or_CONTINUE', 'result is self.action or result is %s.CONTINUE' % PR)
  c.ensures('phase_failure_checkpoint_yields_its_action_iff_the_checked_phases_failed',
            'implies(%s, len(running_test_state.test_record.phases) > 0 and (result is self.action) == %s)' %
            (is_pf.format('self'), triggered_pf('self', 'running_test_state', 'subtest_rec')))
  c.ensures('diagnosis_checkpoint_yields_its_action_iff_its_condition_holds',
            'implies(%s, (result is self.action) == %s)' % (is_dc.format('self'), triggered_diag('self', 'running_test_state')))

  cps = 'self.test_state.test_record.checkpoints'
  one_record = ('len({c}) == old(len({c})) + 1 and forall_int(lambda j: implies(0 <= j and j < old(len({c})), {c}[j] is old(content({c}))[j])) and '
                'is_fresh({c}[len({c}) - 1])').format(c=cps)
  rec = '%s[len(%s) - 1]' % (cps, cps)
  described = ('{r}.name == checkpoint.name and {r}.action is checkpoint.action and '
               '{r}.subtest_name == (subtest_rec.name if subtest_rec is not None else None)').format(r=rec)

  c = reg.contract(PE, 'PhaseExecutor.evaluate_checkpoint', props=['C02', 'C03'])
  c.param('checkpoint', 'ref:Checkpoint').param('subtest_rec', 'opt:ref:SubtestRecord')
  c.returns('ref:PhaseExecutionOutcome')
  c.requires('running', 'self.test_state is not None')
  c.requires('concrete_checkpoint', '%s or %s' % (is_pf.format('checkpoint'), is_dc.format('checkpoint')))
  c.ensures('evaluation_recorded_exactly_once', one_record)
  c.ensures('record_describes_this_evaluation', described + ' and %s.result is result' % rec)
  c.ensures('fresh_outcome', 'is_fresh(result)')
  c.ensures('fail_subtest_only_in_subtest', 'implies(result.is_fail_subtest, subtest_rec is not None)')
  c.ensures('outcome_is_action_CONTINUE_or_an_exception',
            'result.phase_result is checkpoint.action or result.phase_result is %s.CONTINUE or result.raised_exception' % PR)
  c.ensures('phase_failure_checkpoint_yields_its_action_iff_the_checked_phases_failed',
            'implies(%s and len(self.test_state.test_record.phases) > 0 and (subtest_rec is not None or checkpoint.action is not %s.FAIL_SUBTEST), '
            '(result.phase_result is checkpoint.action) == %s and not result.raised_exception)' %
            (is_pf.format('checkpoint'), PR, 'old(%s)' % triggered_pf('checkpoint', 'self.test_state', 'subtest_rec')))
  c.ensures('no_phases_is_an_error', 'implies(%s and len(self.test_state.test_record.phases) == 0, result.raised_exception)' % is_pf.format('checkpoint'))
  c.ensures('diagnosis_checkpoint_yields_its_action_iff_its_condition_holds',
            'implies(%s and (subtest_rec is not None or checkpoint.action is not %s.FAIL_SUBTEST), '
            '(result.phase_result is checkpoint.action) == %s and not result.raised_exception)' %
            (is_dc.format('checkpoint'), PR, 'old(%s)' % triggered_diag('checkpoint', 'self.test_state')))
  c.ensures('FAIL_SUBTEST_outside_a_subtest_is_an_error',
            'implies(subtest_rec is None and checkpoint.action is %s.FAIL_SUBTEST, result.phase_result is %s.CONTINUE or result.raised_exception)' % (PR, PR))
  c.modifies('list(%s)' % cps, 'list(self.test_state.test_record._cached_checkpoints)')

  c = reg.contract(PE, 'PhaseExecutor.skip_checkpoint', props=['C02', 'C03'])
  c.param('checkpoint', 'ref:Checkpoint').param('subtest_rec', 'opt:ref:SubtestRecord')
  c.requires('running', 'self.test_state is not None')
  c.requires('concrete_checkpoint', '%s or %s' % (is_pf.format('checkpoint'), is_dc.format('checkpoint')))
  c.ensures('skip_recorded_exactly_once', one_record)
  c.ensures('record_describes_a_skip', described + ' and %s.result.phase_result is %s.SKIP' % (rec, PR))
  c.modifies('list(%s)' % cps, 'list(self.test_state.test_record._cached_checkpoints)')


# --------------------------------------------------------------------------------------------------------------------
# C03 / C04: a (single) abort cancels the running phase and re-arms the phase executor inside one critical section of the
# teardown lock, so a teardown sequence (which runs under that lock) never starts while the stop flag is still set.
# --------------------------------------------------------------------------------------------------------------------
def register_stop(reg):
  import z3
  from pyvc.state import Obligation

  def under_teardown_lock(what):
    def hook(ex, st, env, result):
      if '$stop_force' not in st.ghost:
        return
      held = any('_teardown_phases_lock' in l for l in st.locks)
      ex.ctx.obligations.append(Obligation(
          '%s/lock.%s_inside_the_teardown_lock_unless_forced' % (ex.ctx.unit, what), 'lock', list(st.pc),
          z3.Or(st.ghost['$stop_force'].t, z3.BoolVal(held)), '', {'msg': '%s called without _teardown_phases_lock on a non-forced stop' % what}))
    return hook

  c = reg.contract(PE, 'PhaseExecutor.reset_stop', props=['C03', 'C04'])
  c.ensures('stop_flag_cleared', 'not self._stopping.is_set()')
  c.modifies('self._stopping.flag')
  c.hooks['after_call'] = under_teardown_lock('reset_stop')

  c = reg.contract(PE, 'PhaseExecutor.stop', props=['C03', 'C04'])
  c.param('timeout_s', 'val{none,int,float}')
  c.ensures('stop_flag_set', 'self._stopping.is_set()')
  c.modifies('self._stopping.flag', 'TestState.running_phase_state', 'threading.Thread.alive')
  c.trusted('the kill / wait handshake with the phase thread is concurrency (C04 / C12, outside this technique); used here only for its '
            'sequential effect: the stop flag is set when it returns')
  c.hooks['after_call'] = under_teardown_lock('stop')

  c = reg.contract(TE, 'TestExecutor._stop_phase_executor', props=['C03', 'C04'])
  c.param('force', 'bool')
  def setup(ex, st, made):
    from pyvc.values import parse_kind
    made['force'] = ex.make_input(st, 'force', parse_kind('bool'))
    st.ghost['$stop_force'] = made['force']
  c.setup(setup)
  c.requires('the_stop_flag_is_its_own_event', 'self._phase_exec is None or (self._phase_exec._stopping is not self._abort and self._phase_exec._stopping is not self._full_abort)')
  c.ensures('abort_flags_untouched', 'self._abort.is_set() == old(self._abort.is_set()) and self._full_abort.is_set() == old(self._full_abort.is_set())')
  c.ensures('the_stop_flag_is_not_left_set', 'implies(self._phase_exec is not None and self._phase_exec._stopping.is_set(), '
            'old(self._phase_exec is not None and self._phase_exec._stopping.is_set()))')
  c.ensures('a_forced_stop_always_rearms', 'implies(force and self._phase_exec is not None, not self._phase_exec._stopping.is_set())')
  c.modifies('event.flag', 'TestState.running_phase_state', 'threading.Thread.alive')


# --------------------------------------------------------------------------------------------------------------------
# replay: PhaseFailureCheckpoint._check_for_action on small concrete phase-record lists (the function only reads
# record.outcome / record.subtest_name / subtest_rec.name)
# --------------------------------------------------------------------------------------------------------------------
def replay_check_for_action(model, ob):
  import itertools, types
  from openhtf.core import phase_branches, test_record
  PO_ = test_record.PhaseOutcome
  PP_ = phase_branches.PreviousPhases
  out = {'scenarios': []}
  bad = False
  kinds = [(PO_.PASS, 'a'), (PO_.FAIL, 'a'), (PO_.PASS, 'b'), (PO_.FAIL, 'b'), (PO_.FAIL, None), (PO_.ERROR, 'a')]
  for n in (1, 2, 3):
    for combo in itertools.product(kinds, repeat=n):
      recs = [types.SimpleNamespace(outcome=o, subtest_name=s) for o, s in combo]
      state = types.SimpleNamespace(test_record=types.SimpleNamespace(phases=recs))
      for prev in (PP_.LAST, PP_.ALL, PP_.SUBTEST):
        for sub in (None, 'a'):
          cp = phase_branches.PhaseFailureCheckpoint('cp', previous_phases_to_check=prev)
          subtest = None if sub is None else types.SimpleNamespace(name=sub)
          failed = lambda r: r.outcome is PO_.FAIL
          if prev is PP_.LAST:
            want = failed(recs[-1])
          elif prev is PP_.SUBTEST and subtest is not None:
            want = any(r.subtest_name == sub and failed(r) for r in recs)
          else:
            want = any(failed(r) for r in recs)
          try:
            got = cp._check_for_action(state, subtest)
          except Exception as e:   # pylint: disable=broad-except
            got = type(e).__name__
          if got != want:
            bad = True
            if len(out['scenarios']) < 5:
              out['scenarios'].append({'phase records (outcome, subtest)': [(o.name, s) for o, s in combo], 'checks': prev.name,
                                       'current subtest': sub, 'prescribed': want, 'actual': got})
  out['reproduced'] = bad
  return out


def register_abort(reg):
  c = reg.contract(TE, 'TestExecutor.abort', props=['C04'])
  c.requires('the_stop_flag_is_its_own_event', 'self._phase_exec is None or (self._phase_exec._stopping is not self._abort and self._phase_exec._stopping is not self._full_abort)')
  c.requires('two_flags', 'self._abort is not self._full_abort')
  c.ensures('the_run_is_marked_aborted', 'self._abort.is_set()')
  c.ensures('a_second_abort_is_a_full_abort', 'implies(old(self._abort.is_set()), self._full_abort.is_set())')
  c.ensures('a_first_abort_is_not', 'implies(not old(self._abort.is_set()), self._full_abort.is_set() == old(self._full_abort.is_set()))')
  c.modifies('event.flag', 'TestState.running_phase_state', 'threading.Thread.alive')
