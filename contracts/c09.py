"""C09 - execute() hands a complete, final record to every output callback exactly once."""
import z3

from pyvc.values import Val, VRef, VInt, VStr, VBool, NONE, VVal, VSeq, VCallable, Raised, fresh
from contracts.core import TE

TD = 'openhtf/core/test_descriptor.py'
TS = 'openhtf/core/test_state.py'


def register(reg):
  reg.repo.module('openhtf.core.test_descriptor')
  reg.shape('Test', _test_options='ref:TestOptions', _lock='ref:lock', _executor='opt:ref:TestExecutor', _test_desc='ref:TestDescriptor',
            last_run_time_millis='val{none,int}', created_time_millis='int')
  reg.shape('TestDescriptor', phase_sequence='ref:PhaseSequence', metadata='own:dict[str,val]', code_info='ref:CodeInfo', uid='str')
  reg.shape('TestOptions', output_callbacks='own:list[fn:output_cb]')
  reg.shape('CodeInfo', name='str')
  reg.shape('TestRecord', metadata='dict[str,val]')
  reg.private('TestDescriptor', 'metadata', 'phase_sequence', 'code_info', 'uid')
  reg.private('TestRecord', 'metadata')       # user code reaches the record, but never re-points / edits the descriptor's metadata dict (assumption)
  reg.private('Test', '_test_options', '_lock', '_executor', '_test_desc', 'last_run_time_millis')
  reg.private('TestOptions', 'output_callbacks', 'name', 'default_dut_id')
  reg.conf(capture_source='bool')
  reg.private_exceptions.update(['InvalidTestStateError', 'TestStopError'])
  reg.prop_meta['C09'] = {
      'not_decided': ['two overlapping execute() calls from two threads beyond the lock monitor: only "the executor slot is tested and filled inside one '
                      'critical section of Test._lock" is proved',
                      'completeness of every phase record (outcome, result, options, start <= end) is the C05 / C01 contracts\' business; here: the record '
                      'handed out is the finalized one of an executor thread that has finished'],
      'bounded': [],
      'assumptions': ['TestExecutor.wait() returning normally means the executor thread has finished (its join timeout is a year)',
                      'output callbacks are opaque: each call is logged (callable, record) and may raise any exception',
                      'the SIGINT handler makes wait() raise KeyboardInterrupt at most once (Test.handle_sig_int, HANDLED_SIGINT_ONCE)',
                      'console output, colorama, profiling statistics are modelled as having no effect',
                      'test_start given as a lambda (wrapped into a trigger phase by a nested decorated function) is outside the subset: '
                      'the contract covers test_start None or a PhaseDescriptor'],
  }

  # the process-wide registry of running tests: one pre-existing dict
  def test_instances(ex, st):
    d = VRef('dict', z3.IntVal(7), elem=None)
    st.axiom(z3.Function('container_tag', z3.IntSort(), z3.IntSort())(z3.IntVal(7)) == -7)      # not any slot's owned container
    return d
  reg.class_attr_overrides = getattr(reg, 'class_attr_overrides', {})
  reg.class_attr_overrides[('Test', 'TEST_INSTANCES')] = test_instances
  reg.private_containers = getattr(reg, 'private_containers', []) + [7]      # only Test.execute adds / removes entries (its own uid)

  from pyvc.values import VClass
  reg.externals['types.LambdaType'] = lambda ex: VClass('function')
  reg.externals['sys.stderr'] = lambda ex: VRef('file', z3.IntVal(4))
  reg.externals['sys.stdout'] = lambda ex: VRef('file', z3.IntVal(4))
  reg.externals['colorama.Fore'] = lambda ex: VRef('colorama', z3.IntVal(5))
  reg.externals['colorama.Style'] = lambda ex: VRef('colorama', z3.IntVal(5))
  from pyvc.values import VBuiltin
  for fn_ in ('error_print', 'banner_print', 'cli_print'):
    reg.externals['openhtf.util.console_output.' + fn_] = (lambda ex, n=fn_: VBuiltin('console_output.' + n, lambda e, s, a, k: [(s, NONE)]))

  def conf_asdict(ex, st, args, kwargs):
    ex.ctx.use_trusted('CONF._asdict (verified under C20)')
    from pyvc.values import parse_kind
    return [(st, ex.make_result(st, parse_kind('dict[str,val]')))]
  reg.trusted_methods[('CONF', '_asdict')] = conf_asdict

  def output_cb(ex, st, fn, pos, kwargs):
    ex.ctx.use_trusted('opaque:output_cb')
    if 'cb.n' in st.ghost:
      n = st.ghost['cb.n'].t
      st.ghost['cb.fn'] = VSeq(z3.Store(st.ghost['cb.fn'].t, n, Val.VC(fn.t)))
      st.ghost['cb.rec'] = VSeq(z3.Store(st.ghost['cb.rec'].t, n, ex.to_val(st, pos[0])))
      st.ghost['cb.n'] = VInt(n + 1)
    bad = st.fork()
    return [(st, NONE), (bad, Raised(ex.make_exception(bad, 'Exception', exact=False)))]
  reg.opaque['output_cb'] = output_cb

  # ------------------------------------------------------------------ executor side
  c = reg.contract(TE, 'TestExecutor.finalize', props=['C09'])
  c.returns('ref:TestState')
  c.requires('the_executor_thread_has_finished', 'not alive(self)')       # the record handed out is final
  c.raises('TestStopError', when='self.test_state is None')
  c.ensures('the_state_of_this_run', 'result is self.test_state and self.test_state is not None')
  c.ensures('dut_id_is_set_default_if_the_test_never_set_one',
            'result.test_record.dut_id is not None and implies(old(self.test_state.test_record.dut_id) is None, '
            'result.test_record.dut_id == self._test_options.default_dut_id) and '
            'implies(old(self.test_state.test_record.dut_id) is not None, result.test_record.dut_id == old(self.test_state.test_record.dut_id))')
  c.modifies('TestRecord.dut_id')
  reg.replayers['TestExecutor.finalize'] = replay_finalize

  # ------------------------------------------------------------------ what execute() relies on (trusted, with reasons)
  PD = 'openhtf/core/phase_descriptor.py'
  PC = 'openhtf/core/phase_collections.py'
  for path, qual, why in ((PD, 'check_for_duplicate_results', 'declaration-time sanity check of diagnosis result enums'),
                          (PC, 'check_for_duplicate_subtest_names', 'declaration-time sanity check of subtest names'),
                          (PC, 'PhaseCollectionNode.all_phases', 'collects the phase descriptors of the tree'),
                          (TD, 'Test.make_uid', 'pid : descriptor uid : random : time'),
                          (TE, 'combine_profile_stats', 'profiling statistics'),
                          (TE, 'TestExecutor.close', 'waits for the executor thread and removes the record log handler (C19)')):
    c = reg.contract(path, qual, props=())
    c.modifies()
    if qual == 'Test.make_uid':
      c.returns('str')
    if qual == 'PhaseCollectionNode.all_phases':
      c.returns('list')
    if qual in ('check_for_duplicate_results', 'check_for_duplicate_subtest_names'):
      c.raises('Exception')
    c.trusted(why)

  c = reg.contract(TE, 'TestExecutor.__init__', props=())
  c.param('test_descriptor', 'ref:TestDescriptor').param('execution_uid', 'str').param('test_start', 'opt:ref:PhaseDescriptor')
  c.param('test_options', 'ref:TestOptions').param('run_phases_with_profiling', 'bool')
  c.ensures('a_fresh_idle_executor', 'self.test_state is None and self.uid == execution_uid and self._test_options is test_options and self._test_descriptor is test_descriptor and not alive(self)')
  c.modifies('self.test_state', 'self.uid', 'self._test_options', 'self._test_descriptor', 'self._test_start', 'self._run_phases_with_profiling',
             'self._phase_exec', 'self._last_outcome', 'self._last_execution_unit', 'self._abort', 'self._full_abort', 'self._lock',
             'self._teardown_phases_lock', 'self._phase_profile_stats', 'threading.Thread.alive')
  c.trusted('constructor of the executor thread: field initialisation only (threading.Thread.__init__ is not modelled)')

  c = reg.contract(TE, 'TestExecutor.wait', props=['C09'])
  c.ensures('the_executor_thread_has_finished', 'not alive(self)')
  c.ensures('a_finished_run_has_a_finalized_record', 'implies(self.test_state is not None, self.test_state.test_record.outcome is not None)')
  c.ensures('the_run_uses_the_descriptor_metadata', 'implies(self.test_state is not None, self.test_state.test_record.metadata is self._test_descriptor.metadata)')
  c.ghost('sigint_seen', 'bool')
  c.raises('KeyboardInterrupt', when="not old(ghost('sigint_seen'))", ensures=[('only_once', "ghost('sigint_seen')")])
  c.ensures('no_new_interrupt', "ghost('sigint_seen') == old(ghost('sigint_seen'))")
  c.modifies('threading.Thread.alive', '*user', 'self.test_state', 'self._phase_exec', 'self._last_outcome', 'self._last_execution_unit')
  c.trusted('join with a one-year timeout: a normal return is taken to mean the thread finished; the SIGINT handler may raise KeyboardInterrupt '
            'out of it; while waiting the executor thread runs the whole test (user code)')

  # ------------------------------------------------------------------ Test.execute
  c = reg.contract(TD, 'Test.execute', props=['C09'])
  c.param('test_start', 'opt:ref:PhaseDescriptor').param('profile_filename', 'val{none,str}').returns('bool')
  c.ghost('cb.n', 'int').ghost('cb.fn', 'seq').ghost('cb.rec', 'seq').ghost('sigint_seen', 'bool')
  c.requires('callback_log', "ghost('cb.n') >= 0")
  c.requires('no_interrupt_yet', "not ghost('sigint_seen')")
  cbs = 'self._test_options.output_callbacks'
  n0 = "old(ghost('cb.n'))"
  every_cb_once = ("ghost('cb.n') == {n0} + len({cbs}) and forall_int(lambda j: implies(0 <= j and j < len({cbs}), "
                   "same(ghost('cb.fn')[{n0} + j], {cbs}[j])))").format(n0=n0, cbs=cbs)
  same_record = ("forall_int(lambda j: implies({n0} <= j and j < ghost('cb.n'), same(ghost('cb.rec')[j], ghost('cb.rec')[{n0}])))").format(n0=n0)
  released = "self._executor is None"
  c.raises('InvalidTestStateError', when='old(self._executor) is not None',
           ensures=[('nothing_started', "self._executor is old(self._executor) and ghost('cb.n') == %s" % n0)])
  c.ensures('was_idle', 'old(self._executor) is None')
  c.ensures('every_output_callback_exactly_once_in_registration_order', every_cb_once)
  c.ensures('all_callbacks_receive_the_same_record', same_record)
  c.ensures('holds_no_executor_afterwards', released)
  c.ensures('returns_True_iff_PASS',
            "implies(ghost('cb.n') > %s, result == (cast(ghost('cb.rec')[%s], class_named('TestRecord')).outcome is class_named('test_record.Outcome').PASS))" % (n0, n0))
  c.raises('KeyboardInterrupt', ensures=[('every_output_callback_exactly_once_in_registration_order', every_cb_once),
                                         ('holds_no_executor_afterwards', released)])
  c.raises('Exception')          # duplicate results / subtest names detected before anything starts; TestStopError from finalize
  c.modifies('self._executor', 'self.last_run_time_millis', 'dict(self._test_desc.metadata)', '*user', 'threading.Thread.alive',
             'TestRecord.dut_id', 'dict(self.TEST_INSTANCES)')
  c.loop('for output_cb in self._test_options.output_callbacks',
         inv=[('called_so_far', "ghost('cb.n') == {n0} + _i and forall_int(lambda j: implies(0 <= j and j < _i, same(ghost('cb.fn')[{n0} + j], {cbs}[j])))".format(n0=n0, cbs=cbs)),
              ('same_record_so_far', "forall_int(lambda j: implies({n0} <= j and j < ghost('cb.n'), same(ghost('cb.rec')[j], final_state.test_record)))".format(n0=n0)),
              ('first_record', "implies(ghost('cb.n') > {n0}, same(ghost('cb.rec')[{n0}], final_state.test_record))".format(n0=n0))],
         modifies=['*user'])
  c.loop('for detail in final_state.test_record.outcome_details',
         inv=[('callbacks_done', "ghost('cb.n') == {n0} + len({cbs}) and forall_int(lambda j: implies(0 <= j and j < len({cbs}), same(ghost('cb.fn')[{n0} + j], {cbs}[j])))".format(n0=n0, cbs=cbs)),
              ('same_record', "forall_int(lambda j: implies({n0} <= j and j < ghost('cb.n'), same(ghost('cb.rec')[j], final_state.test_record)))".format(n0=n0)),
              ('first_record', "implies(ghost('cb.n') > {n0}, same(ghost('cb.rec')[{n0}], final_state.test_record))".format(n0=n0))],
         modifies=[])

  for fn_ in ('error_print', 'banner_print'):
    c = reg.contract('openhtf/util/console_output.py', fn_, props=())
    c.modifies()
    c.trusted('console decoration (writes to the terminal only)')

  c = reg.contract('openhtf/core/test_record.py', 'CodeInfo.for_function', props=())
  c.param('func', 'val').returns('ref:CodeInfo').modifies()
  c.trusted('inspect.getsource of the trigger function (descriptive)')


def replay_finalize(model, ob):
  import types
  from openhtf.core import test_executor
  out = {'scenarios': []}
  bad = False
  for dut in (None, 'dut-7'):
    rec = types.SimpleNamespace(dut_id=dut)
    me = types.SimpleNamespace(test_state=types.SimpleNamespace(test_record=rec), _test_options=types.SimpleNamespace(default_dut_id='UNKNOWN_DUT'))
    state = test_executor.TestExecutor.finalize(me)
    want = dut if dut is not None else 'UNKNOWN_DUT'
    if state is not me.test_state or rec.dut_id != want:
      bad = True
      out['scenarios'].append({'dut_id before finalize()': dut, 'prescribed after': want, 'actual': rec.dut_id})
  out['reproduced'] = bad
  return out
