"""C05 - phase result -> phase outcome mapping, repeat limit, run_if."""
import z3

from contracts.core import TS, TE, PE, TR
from pyvc.values import VRef, VBool, NONE, Val, fresh

PD = 'openhtf/core/phase_descriptor.py'
PR = 'phase_descriptor.PhaseResult'


def register(reg):
  reg.shape('PhaseExecutorThread', _phase_desc='ref:PhaseDescriptor', _test_state='ref:TestState',
            _subtest_rec='opt:ref:SubtestRecord', _phase_execution_outcome='opt:ref:PhaseExecutionOutcome',
            _killed='ref:event', _running_lock='ref:lock', _run_with_profiling='bool')
  reg.closed('SubtestRecord')
  reg.private('PhaseExecutorThread', '_phase_execution_outcome', '_phase_desc', '_test_state', '_subtest_rec', '_killed', '_running_lock')
  reg.private('PhaseExecutionOutcome', 'phase_result')
  reg.private('ExceptionInfo', 'exc_type', 'exc_val', 'exc_tb')
  reg.private('TestExecutor', 'test_state', '_phase_exec', '_last_outcome', '_last_execution_unit', '_abort', '_full_abort',
              '_phase_profile_stats', '_teardown_phases_lock', '_lock', '_test_options', '_test_start', '_test_descriptor',
              '_run_phases_with_profiling', 'uid')
  reg.private('TestState', '_status', 'test_record', 'running_phase_state', 'test_options', 'plug_manager', 'diagnoses_manager')
  reg.private('PhaseExecutor', 'test_state', '_stopping', '_current_phase_thread', '_current_phase_thread_lock')
  reg.private('TestRecord', 'outcome', 'phases', 'subtests', 'branches', 'checkpoints', 'diagnoses', 'end_time_millis',
              'start_time_millis', 'outcome_details', 'marginal')
  reg.private('PhaseRecord', 'outcome', 'result', 'marginal', 'end_time_millis', 'start_time_millis', 'options')
  reg.private('SubtestRecord', 'outcome')
  reg.private('PhaseOptions', 'name', 'timeout_s', 'run_if', 'requires_state', 'force_repeat', 'repeat_on_measurement_fail',
              'repeat_on_timeout', 'repeat_limit', 'run_under_pdb', 'stop_on_measurement_fail')
  reg.private('PhaseDescriptor', 'options', 'func_location', 'plugs', 'measurements', 'diagnosers', 'func', 'extra_kwargs', 'code_info')
  reg.private('event', 'flag')
  reg.private('threading.Thread', 'alive')
  reg.private_exceptions.update(['InvalidPhaseResultError', 'TestStopError', 'TestExecutionError'])
  reg.prop_meta['C05'] = {
      'not_decided': [],
      'bounded': [],
      'assumptions': [
          'PhaseDescriptor.__call__ (plug injection + the user phase body) is opaque: arbitrary return value or exception, '
          'recorded in the ghost variable phase_return',
          'threading.Thread.start/join/is_alive follow the trusted thread model in contracts/_trusted.py',
          'a diagnoser run through DiagnosesManager.execute_phase_diagnoser only appends diagnosis results (assumed contract)',
      ],
  }

  # ---- the opaque phase body (with plug injection)
  c = reg.contract(PD, 'PhaseDescriptor.__call__', props=())
  c.param('test_state', 'ref:TestState').returns('val')
  c.raises('Exception').raises('BaseException')
  c.modifies('*user')
  c.hooks['after_call'] = lambda ex, st, env, result: st.ghost.__setitem__('phase_return', result)
  c.trusted('user phase body: arbitrary behaviour')

  def publish_outcome(ex, st, th):
    """join() on a phase thread: the thread body may have published its outcome meanwhile (None -> set)."""
    cur = ex.read_field(st, th, '_phase_execution_outcome')
    new = fresh('published', z3.IntSort())
    st.assume(z3.Implies(cur.t != 0, new == cur.t))
    st.assume(z3.And(new >= 0, new < 1000000))
    ex.write_field(st, th, '_phase_execution_outcome', VRef(cur.cls, new, nullable=True))
    # what a phase thread publishes is a PhaseResult or an ExceptionInfo, never the timeout marker None
    pr = ex.read_field(st, VRef(cur.cls, new), 'phase_result')
    st.assume(z3.Implies(new != 0, z3.Not(Val.is_VN(pr.t))))
    # ... and never FAIL_SUBTEST outside a subtest (postcondition of PhaseExecutorThread._thread_proc, verified above)
    sub = ex.read_field(st, th, '_subtest_rec')
    fs = ex.class_by_name('PhaseResult')
    st.assume(z3.Implies(z3.And(new != 0, pr.t == Val.VE(z3.IntVal(fs.uid), z3.IntVal(fs.index('FAIL_SUBTEST')))), sub.t != 0))
  reg.join_effects['PhaseExecutorThread'] = publish_outcome

  # ---------------------------------------------------------------- result validation in the phase thread
  ret = "ghost('phase_return')"
  bad = ('(%s is not None and not isinstance(%s, phase_descriptor.PhaseResult)) or '
         '(%s is %s.FAIL_SUBTEST and self._subtest_rec is None)' % (ret, ret, ret, PR))
  c = reg.contract(PE, 'PhaseExecutorThread._thread_proc', props=['C05', 'C01'])
  c.raises('InvalidPhaseResultError', when=bad,
           ensures=[('no_outcome_published', 'self._phase_execution_outcome is old(self._phase_execution_outcome)')])
  c.raises('Exception').raises('BaseException')
  c.ensures('only_valid_results', 'not (%s)' % bad)
  c.ghost('phase_return', 'val')
  c.ensures('none_means_continue',
            'self._phase_execution_outcome is not None and same(self._phase_execution_outcome.phase_result, '
            '%s.CONTINUE if %s is None else %s)' % (PR, ret, ret))
  c.modifies('*user', 'self._phase_execution_outcome')

  c = reg.contract(PE, 'PhaseExecutorThread._thread_exception', props=['C05'])
  c.setup(_exc_args)
  c.returns('bool')
  c.ensures('exception_becomes_the_outcome',
            'result and self._phase_execution_outcome is not None and '
            'isinstance(self._phase_execution_outcome.phase_result, ExceptionInfo)')
  c.modifies('self._phase_execution_outcome')

  # ---------------------------------------------------------------- join_or_die: no false timeout, stored outcome wins
  c = reg.contract(PE, 'PhaseExecutorThread.join_or_die', props=['C05', 'C12'])
  c.returns('ref:PhaseExecutionOutcome')
  c.requires('timeout_is_a_number', 'self._phase_desc.options.timeout_s is None or '
             '(self._phase_desc.options.timeout_s >= 0 and self._phase_desc.options.timeout_s < 2**60)')
  c.requires('a_stored_outcome_is_valid', 'self._phase_execution_outcome is None or (self._phase_execution_outcome.phase_result is not None and (not self._phase_execution_outcome.is_fail_subtest or self._subtest_rec is not None))')
  c.ensures('fail_subtest_only_in_subtest', 'implies(result.is_fail_subtest, self._subtest_rec is not None)')
  c.ensures('stored_outcome_is_returned', 'implies(self._phase_execution_outcome is not None, result is self._phase_execution_outcome)')
  c.ensures('timeout_only_if_still_alive',
            'implies(result.phase_result is None, self._phase_execution_outcome is None and alive(self) and self._killed.is_set())')
  c.ensures('otherwise_killed', 'implies(self._phase_execution_outcome is None and not alive(self), '
            'isinstance(result.phase_result, threads.ThreadTerminationError))')
  c.ensures('fresh_result_unless_stored', 'implies(self._phase_execution_outcome is None, is_fresh(result))')
  c.modifies('self._phase_execution_outcome', 'threading.Thread.alive', 'self._killed.flag')

  def remember_thread_result(ex, st, env, result):
    # ghost: the outcome object the phase thread handed back (for "the record keeps the body's result" in _execute_phase_once)
    if 'jod.n' in st.ghost:
      from pyvc.values import VInt as _VI
      st.ghost['jod.result'] = _VI(result.t)
      st.ghost['jod.n'] = _VI(st.ghost['jod.n'].t + 1)
  c.hooks['after_call'] = remember_thread_result
  c.loop('while time.monotonic() < deadline',
         inv=[('a_stored_outcome_is_valid', 'self._phase_execution_outcome is None or (self._phase_execution_outcome.phase_result is not None and (not self._phase_execution_outcome.is_fail_subtest or self._subtest_rec is not None))')], modifies=['self._phase_execution_outcome', 'threading.Thread.alive'])


  register_finalize(reg)
  register_finalize2(reg)
  register_executor(reg)
  register_repeat(reg)



def _exc_args(ex, st, made):
  from pyvc.values import VTuple
  made['args'] = VTuple([ex.make_input(st, 'exc_type', 'val{type}'), ex.make_input(st, 'exc_val', 'ref:object'),
                         ex.make_input(st, 'exc_tb', 'ref:object')])


MO = 'measurements.Outcome'
PO = 'test_record.PhaseOutcome'


def register_finalize(reg):
  M = 'openhtf/core/measurements.py'
  DL = 'openhtf/core/diagnoses_lib.py'
  reg.shape('PhaseState', name='str', phase_record='ref:PhaseRecord', measurements='dict[ref:Measurement]',
            options='ref:PhaseOptions', test_state='ref:TestState', diagnosers='list[ref:BasePhaseDiagnoser]',
            hit_repeat_limit='bool')
  reg.shape('Measurement', outcome='enum:measurements.Outcome', marginal='bool', name='str', _notification_cb='val')
  reg.shape('DiagnosesManager', store='ref:DiagnosesStore')
  reg.shape('DiagnosesStore', _diagnoses_by_results='dict', _diagnoses='list')
  reg.private('PhaseState', 'phase_record', 'measurements', 'options', 'test_state', 'diagnosers', 'hit_repeat_limit')
  reg.private('Measurement', 'outcome', 'marginal')

  rec = 'self.phase_record'
  res = rec + '.result'
  terminal = lambda r: '(%s is not None and %s.is_terminal)' % (r, r)
  # what happens to the result when a validator / diagnoser raises: kept if already terminal, else replaced by the exception
  result_rule = ('(%s is old(%s) or (not old(%s) and %s is not None and is_fresh(%s) and '
                 'isinstance(%s.phase_result, phase_executor.ExceptionInfo)))') % (
                     res, res, terminal(res), res, res, res)

  c = reg.contract(M, 'Measurement.set_notification_callback', props=())
  c.param('notification_cb', 'val').returns('ref:Measurement').modifies('self._notification_cb')
  c.trusted('only (un)registers the notification callback')

  c = reg.contract(M, 'Measurement.validate', props=['C06'])
  c.returns('ref:Measurement')
  c.raises('Exception', ensures=[('a_raising_validator_fails_the_measurement', 'self.outcome is Outcome.FAIL')])
  c.ensures('pass_or_fail', 'self.outcome is Outcome.PASS or self.outcome is Outcome.FAIL')
  c.modifies('self.outcome', 'self.marginal')
  c.trusted('verified under C06; here: validation ends in PASS or FAIL, and FAIL when a validator raises')

  c = reg.contract(DL, 'DiagnosesManager.execute_phase_diagnoser', props=())
  c.param('diagnoser', 'ref:BasePhaseDiagnoser').param('phase_state', 'ref:PhaseState').param('test_rec', 'ref:TestRecord')
  c.raises('Exception')
  c.modifies('list(phase_state.phase_record.failure_diagnosis_results)', 'list(phase_state.phase_record.diagnosis_results)',
             'list(test_rec.diagnoses)', 'DiagnosesStore._diagnoses_by_results', 'DiagnosesStore._diagnoses')
  bump = lambda ex, st, *a: st.ghost.__setitem__('diag_calls', __import__('pyvc.values', fromlist=['VInt']).VInt(st.ghost['diag_calls'].t + 1)) if 'diag_calls' in st.ghost else None
  c.hooks['after_call'] = lambda ex, st, env, result: bump(ex, st)
  c.hooks['on_raise'] = lambda ex, st, env, exc: bump(ex, st)
  c.trusted('runs one user diagnoser and appends the diagnoses it returns (generator pipeline _convert_result not verified)')

  # ---------------------------------------------------------------- _finalize_measurements
  c = reg.contract(TS, 'PhaseState._finalize_measurements', props=['C05', 'C06'])
  c.requires('no_result_means_the_body_never_ran',
             '%s is not None or all(m.outcome is not measurements.Outcome.PARTIALLY_SET for m in self.measurements.values())' % res)
  nothing_partial0 = 'old(all(m.outcome is not measurements.Outcome.PARTIALLY_SET for m in self.measurements.values()))'
  untouched = ('implies(%s, %s is old(%s) and all(m.outcome is not measurements.Outcome.PARTIALLY_SET for m in self.measurements.values()))'
               % (nothing_partial0, res, res))
  c.ensures('result_rule', result_rule)
  c.ensures('result_untouched_without_partial_measurements', untouched)
  c.ensures('measurements_published', '%s.measurements is self.measurements' % rec)
  c.ensures('nothing_left_partially_set', 'all(m.outcome is not measurements.Outcome.PARTIALLY_SET for m in self.measurements.values())')
  c.modifies('Measurement.outcome', 'Measurement.marginal', 'Measurement._notification_cb', res, rec + '.measurements', 'owned(Measurement._cached)')
  c.loop('for measurement in self.measurements.values()',
         inv=[('result_rule', result_rule), ('result_untouched_without_partial_measurements', untouched),
              ('no_result_means_the_body_never_ran', '%s is not None or all(m.outcome is not measurements.Outcome.PARTIALLY_SET for m in self.measurements.values())' % res),
              ('processed_are_validated', 'forall_key(lambda k: implies(k in self.measurements and keypos(self.measurements, k) < _i, '
               'self.measurements[k].outcome is not measurements.Outcome.PARTIALLY_SET))')],
         modifies=['Measurement.outcome', 'Measurement.marginal', 'Measurement._notification_cb', res, 'owned(Measurement._cached)'])

  # ---------------------------------------------------------------- outcome before diagnosers (decision table rows)
  mp = ('all(m.outcome is measurements.Outcome.PASS or (CONF.allow_unset_measurements and m.outcome is measurements.Outcome.UNSET) '
        'for m in %s.measurements.values())' % rec)
  r0 = 'old(%s)' % res
  c = reg.contract(TS, 'PhaseState._set_prediagnosis_phase_outcome', props=['C05'])
  c.requires('measurements_published', '%s.measurements is not None' % rec)
  kind = lambda k: '(%s is not None and %s.phase_result is %s.%s)' % (r0, r0, PR, k)
  err = '(%s is None or %s.is_terminal or self.hit_repeat_limit)' % (r0, r0)
  c.ensures('row_error', 'implies(%s, %s.outcome is %s.ERROR and %s is %s)' % (err, rec, PO, res, r0))
  c.ensures('row_skip', 'implies(not %s and (%s or %s), %s.outcome is %s.SKIP and %s is %s)' % (err, kind('REPEAT'), kind('SKIP'), rec, PO, res, r0))
  c.ensures('row_fail_result', 'implies(not %s and (%s or %s), %s.outcome is %s.FAIL and %s is %s)'
            % (err, kind('FAIL_SUBTEST'), kind('FAIL_AND_CONTINUE'), rec, PO, res, r0))
  c.ensures('row_measurement_fail', 'implies(not %s and %s and not %s, %s.outcome is %s.FAIL and '
            '(%s.phase_result is %s.STOP if self.options.stop_on_measurement_fail else %s is %s))'
            % (err, kind('CONTINUE'), mp, rec, PO, res, PR, res, r0))
  c.ensures('row_pass', 'implies(not %s and %s and %s, %s.outcome is %s.PASS and %s is %s)' % (err, kind('CONTINUE'), mp, rec, PO, res, r0))
  c.ensures('row_pass_marginal_if', 'implies(not %s and %s and %s and any(m.marginal for m in %s.measurements.values()), %s.marginal is True)'
            % (err, kind('CONTINUE'), mp, rec, rec))
  c.ensures('row_pass_marginal_only_if', 'implies(not %s and %s and %s and %s.marginal is True, any(m.marginal for m in %s.measurements.values()))'
            % (err, kind('CONTINUE'), mp, rec, rec))
  c.ensures('result_stays_set', 'implies(%s is not None, %s is not None)' % (r0, res))
  c.modifies(rec + '.outcome', rec + '.marginal', res)

  # ---------------------------------------------------------------- diagnosers: all of them, exactly when the table says
  runs = ('(%s is not None and not %s.is_aborted and not %s.is_repeat and not %s.is_skip)' % (r0, r0, r0, r0))
  c = reg.contract(TS, 'PhaseState._execute_phase_diagnosers', props=['C05'])
  c.ghost('diag_calls', 'int')
  c.ensures('every_diagnoser_runs_once', "implies(%s, ghost('diag_calls') == old(ghost('diag_calls')) + len(self.diagnosers))" % runs)
  c.ensures('none_runs_otherwise', "implies(not %s, ghost('diag_calls') == old(ghost('diag_calls')) and %s is %s)" % (runs, res, r0))
  c.ensures('result_rule', result_rule)
  c.ensures('outcome_untouched', '%s.outcome is old(%s.outcome)' % (rec, rec))
  c.modifies(res, 'list(%s.failure_diagnosis_results)' % rec, 'list(%s.diagnosis_results)' % rec,
             'list(self.test_state.test_record.diagnoses)', 'DiagnosesStore._diagnoses_by_results', 'DiagnosesStore._diagnoses')
  c.loop('for diagnoser in self.diagnosers',
         inv=[('count', "ghost('diag_calls') == old(ghost('diag_calls')) + _i"), ('result_rule', result_rule),
              ('has_result', '%s is not None' % res), ('outcome_untouched', '%s.outcome is old(%s.outcome)' % (rec, rec))],
         modifies=[res, 'list(%s.failure_diagnosis_results)' % rec, 'list(%s.diagnosis_results)' % rec,
                   'list(self.test_state.test_record.diagnoses)', 'DiagnosesStore._diagnoses_by_results', 'DiagnosesStore._diagnoses'])

  c = reg.contract(TS, 'PhaseState._set_postdiagnosis_phase_outcome', props=['C05'])
  o0 = 'old(%s.outcome)' % rec
  c.ensures('error_stays', 'implies(%s is %s.ERROR, %s.outcome is %s.ERROR)' % (o0, PO, rec, PO))
  c.ensures('diagnoser_error', 'implies(%s is not %s.ERROR and (%s is None or %s.is_terminal), %s.outcome is %s.ERROR)' % (o0, PO, res, res, rec, PO))
  c.ensures('failure_diagnosis_fails_a_pass', 'implies(%s is %s.PASS and not (%s is None or %s.is_terminal), %s.outcome is '
            '(%s.FAIL if len(%s.failure_diagnosis_results) > 0 else %s.PASS))' % (o0, PO, res, res, rec, PO, rec, PO))
  c.ensures('others_unchanged', 'implies(%s is not %s.ERROR and %s is not %s.PASS and not (%s is None or %s.is_terminal), %s.outcome is %s)'
            % (o0, PO, o0, PO, res, res, rec, o0))
  c.modifies(rec + '.outcome')


def register_finalize2(reg):
  rec = 'self.phase_record'
  res = rec + '.result'
  r0 = 'old(%s)' % res
  kind0 = lambda k: '(%s is not None and %s.phase_result is %s.%s)' % (r0, r0, PR, k)
  term1 = '(%s is not None and %s.is_terminal)' % (res, res)
  err0 = '(%s is None or %s.is_terminal or self.hit_repeat_limit)' % (r0, r0)
  mp = ('all(m.outcome is measurements.Outcome.PASS or (CONF.allow_unset_measurements and m.outcome is measurements.Outcome.UNSET) '
        'for m in self.measurements.values())')
  out = rec + '.outcome'
  c = reg.contract(TS, 'PhaseState.finalize', props=['C05', 'C01'])
  c.ghost('diag_calls', 'int')
  c.requires('no_result_means_the_body_never_ran',
             '%s is not None or all(m.outcome is not measurements.Outcome.PARTIALLY_SET for m in self.measurements.values())' % res)
  c.requires('fresh_record', '%s is None' % out)
  c.ensures('outcome_set', '%s is not None' % out)
  c.ensures('no_result_is_ERROR', 'implies(%s is None, %s is %s.ERROR and %s is None)' % (r0, out, PO, res))
  c.ensures('terminal_or_repeat_limit_is_ERROR', 'implies(%s, %s is %s.ERROR)' % (err0, out, PO))
  c.ensures('terminal_result_is_kept', 'implies(%s is not None and %s.is_terminal, %s is %s)' % (r0, r0, res, r0))
  c.ensures('repeat_and_skip_are_SKIP', 'implies(not %s and (%s or %s) and %s is %s, %s is %s.SKIP)'
            % (err0, kind0('REPEAT'), kind0('SKIP'), res, r0, out, PO))
  c.ensures('skip_and_repeat_keep_their_result',
            'implies(not %s and (%s or %s) and old(all(m.outcome is not measurements.Outcome.PARTIALLY_SET for m in self.measurements.values())), %s is %s)'
            % (err0, kind0('REPEAT'), kind0('SKIP'), res, r0))
  c.ensures('a_replaced_result_is_an_ERROR', 'implies(%s is not %s, %s and %s is %s.ERROR)' % (res, r0, term1, out, PO))
  c.ensures('fail_results_are_FAIL', 'implies(not %s and (%s or %s), %s is (%s.ERROR if %s else %s.FAIL))'
            % (err0, kind0('FAIL_SUBTEST'), kind0('FAIL_AND_CONTINUE'), out, PO, term1, PO))
  c.ensures('continue_with_an_error_is_ERROR', 'implies(not %s and %s and %s, %s is %s.ERROR)' % (err0, kind0('CONTINUE'), term1, out, PO))
  c.ensures('continue_passes_only_clean', 'implies(not %s and %s and not %s and %s and len(%s.failure_diagnosis_results) == 0, %s is %s.PASS)'
            % (err0, kind0('CONTINUE'), term1, mp, rec, out, PO))
  c.ensures('continue_with_failed_measurement_FAILS', 'implies(not %s and %s and not %s and not %s, %s is %s.FAIL)'
            % (err0, kind0('CONTINUE'), term1, mp, out, PO))
  c.ensures('continue_with_failure_diagnosis_FAILS', 'implies(not %s and %s and not %s and len(%s.failure_diagnosis_results) > 0, %s is %s.FAIL)'
            % (err0, kind0('CONTINUE'), term1, rec, out, PO))
  c.ensures('stop_on_measurement_fail_stops', 'implies(not %s and %s and %s is %s and not %s and self.options.stop_on_measurement_fail, False) or True'
            if False else
            'implies(not %s and %s and not %s and self.options.stop_on_measurement_fail, %s and %s is %s.ERROR)'
            % (err0, kind0('CONTINUE'), mp, term1, out, PO))
  c.ensures('ERROR_only_with_a_terminal_result', 'implies(%s is %s.ERROR, %s is None or %s.is_terminal or self.hit_repeat_limit)' % (out, PO, res, res))
  c.ensures('PASS_only_for_CONTINUE', 'implies(%s is %s.PASS, %s is not None and %s.phase_result is %s.CONTINUE)' % (out, PO, res, res, PR))
  c.ensures('result_only_replaced_by_an_error', '%s is %s or %s' % (res, r0, term1))
  c.ensures('the_result_is_kept_or_replaced_by_an_exception_or_by_the_measurement_STOP',
            '%s is %s or isinstance(%s.phase_result, phase_executor.ExceptionInfo) or (self.options.stop_on_measurement_fail and %s.phase_result is %s.STOP)'
            % (res, r0, res, res, PR))
  runs = '(%s is not None and not %s.is_aborted and not %s.is_repeat and not %s.is_skip)'
  c.ensures('diagnosers_all_run_or_none',
            "ghost('diag_calls') == old(ghost('diag_calls')) or ghost('diag_calls') == old(ghost('diag_calls')) + len(self.diagnosers)")
  # (an invocation whose SKIP / REPEAT result is replaced by a validator exception during finalization is an ERROR
  # invocation, not a skipped one: the clause is about results that are still in place when the diagnosers are reached)
  c.ensures('no_diagnosers_for_skip_repeat_or_missing_result',
            "implies((%s is None or %s or %s) and %s is %s, ghost('diag_calls') == old(ghost('diag_calls')))" % (r0, kind0('REPEAT'), kind0('SKIP'), res, r0))
  c.ensures('record_closed', '%s.end_time_millis is not None and %s.options is self.options and %s.measurements is self.measurements' % (rec, rec, rec))
  c.ensures('nothing_left_partially_set', 'all(m.outcome is not measurements.Outcome.PARTIALLY_SET for m in self.measurements.values())')
  c.modifies('owned(Measurement._cached)', 'Measurement.outcome', 'Measurement.marginal', 'Measurement._notification_cb', res, rec + '.measurements', rec + '.outcome',
             rec + '.marginal', rec + '.end_time_millis', rec + '.options', 'list(%s.failure_diagnosis_results)' % rec,
             'list(%s.diagnosis_results)' % rec, 'list(self.test_state.test_record.diagnoses)', 'DiagnosesStore._diagnoses_by_results',
             'DiagnosesStore._diagnoses')


def register_executor(reg):
  from pyvc.opaque import effectful
  TRP = 'openhtf/core/test_record.py'
  reg.shape('PhaseState', _cached='dict', _update_measurements='set')
  reg.shape('PhaseExecutor', logger='ref:logger')
  reg.shape('TestRecord', _cached_phases='own:list')
  # run_if is user code: arbitrary value or exception, touching no framework-private state
  reg.opaque['run_if'] = effectful('run_if', 'val', may_raise=('Exception',), havoc=('*user',))

  c = reg.contract(TS, 'PhaseState.from_descriptor', props=())
  c.param('phase_desc', 'ref:PhaseDescriptor').param('test_state', 'ref:TestState').param('logger', 'ref:logger')
  c.returns('ref:PhaseState')
  c.ensures('fresh_state', 'is_fresh(result) and is_fresh(result.phase_record) and result.phase_record.result is None and '
            'result.phase_record.outcome is None and not result.hit_repeat_limit and result.options is phase_desc.options and '
            'result.test_state is test_state and result.diagnosers is phase_desc.diagnosers and is_fresh(result.measurements) and '
            'is_fresh(result.phase_record.failure_diagnosis_results) and is_fresh(result.phase_record.diagnosis_results) and '
            'is_fresh(result._cached) and is_fresh(result._update_measurements) and '
            'all(m.outcome is measurements.Outcome.UNSET for m in result.measurements.values())')
  c.modifies()
  c.trusted('per-run copies of the measurements and a fresh PhaseRecord (subject of C06/C11)')

  c = reg.contract(TRP, 'PhaseRecord.as_base_types', props=())
  c.returns('dict').modifies()
  c.trusted('rendering (subject of C10)')

  records = 'self.test_state.test_record.phases'
  prefix_kept = 'forall_int(lambda j: implies(0 <= j and j < old(len({r})), {r}[j] is old(content({r}))[j]))'.format(r=records)
  last = '{r}[len({r}) - 1]'.format(r=records)

  # ---------------------------------------------------------------- one invocation
  c = reg.contract(PE, 'PhaseExecutor._execute_phase_once', props=['C05', 'C01'])
  c.param('phase_desc', 'ref:PhaseDescriptor').param('is_last_repeat', 'bool').param('run_with_profiling', 'bool')
  c.param('subtest_rec', 'opt:ref:SubtestRecord')
  c.ghost('diag_calls', 'int').ghost('body_starts', 'int').ghost('jod.n', 'int').ghost('jod.result', 'int')
  c.returns('ptuple(ref:PhaseExecutionOutcome;val{none,ref:object})')
  c.requires('no_phase_running', 'self.test_state.running_phase_state is None')
  c.requires('not_profiling', 'not run_with_profiling')
  c.requires('timeout_is_a_number', 'phase_desc.options.timeout_s is None or (phase_desc.options.timeout_s >= 0 and phase_desc.options.timeout_s < 2**60)')
  one = 'len({r}) == old(len({r})) + 1'.format(r=records)
  none_ = 'len({r}) == old(len({r}))'.format(r=records)
  c.ensures('at_most_one_record', '(%s or %s) and %s' % (one, none_, prefix_kept))
  c.ensures('no_record_means_no_body', "implies(%s, ghost('body_starts') == old(ghost('body_starts')) and "
            "(result[0].phase_result is %s.SKIP or isinstance(result[0].phase_result, ExceptionInfo)))" % (none_, PR))
  c.ensures('at_most_one_invocation', "ghost('body_starts') <= old(ghost('body_starts')) + 1")
  c.ensures('record_has_outcome', 'implies(%s, %s.outcome is not None and %s.end_time_millis is not None and %s.options is phase_desc.options)'
            % (one, last, last, last))
  c.ensures('ERROR_record_means_terminal_result', 'implies(%s and %s.outcome is %s.ERROR, result[0].is_terminal)' % (one, last, PO))
  c.ensures('PASS_record_means_CONTINUE', 'implies(%s and %s.outcome is %s.PASS, result[0].phase_result is %s.CONTINUE)' % (one, last, PO, PR))
  c.ensures('repeat_limit_becomes_STOP', 'implies(result[0].phase_result is %s.REPEAT, not is_last_repeat)' % PR)
  lr = last + '.result'
  c.ensures('record_keeps_the_body_result', 'implies(%s, %s is not None)' % (one, lr))
  # finalization may replace a result (by the exception of a raising validator / diagnoser, or by STOP under
  # stop_on_measurement_fail); nothing else does: in particular exceeding the repeat limit does not rewrite the record's result
  c.ensures('the_record_keeps_the_result_the_phase_thread_returned',
            "implies(%s and ghost('jod.n') > old(ghost('jod.n')), ref_id(%s) == ghost('jod.result') or isinstance(%s.phase_result, ExceptionInfo) or "
            "(phase_desc.options.stop_on_measurement_fail and %s.phase_result is %s.STOP))" % (one, lr, lr, lr, PR))
  c.ensures('exceeding_the_repeat_limit_is_an_ERROR_and_stops',
            'implies(%s and %s.phase_result is %s.REPEAT and is_last_repeat, %s.outcome is %s.ERROR and result[0].phase_result is %s.STOP)'
            % (one, lr, PR, last, PO, PR))
  c.ensures('a_non_final_REPEAT_is_SKIP', 'implies(%s and %s.phase_result is %s.REPEAT and not is_last_repeat, %s.outcome is %s.SKIP and result[0] is %s)'
            % (one, lr, PR, last, PO, lr))
  c.ensures('SKIP_result_is_SKIP', 'implies(%s and %s.phase_result is %s.SKIP, %s.outcome is %s.SKIP)' % (one, lr, PR, last, PO))
  c.ensures('terminal_body_result_is_ERROR', 'implies(%s and %s.is_terminal, %s.outcome is %s.ERROR and result[0].is_terminal)' % (one, lr, last, PO))
  c.ensures('fail_subtest_only_in_subtest', 'implies(result[0].is_fail_subtest, subtest_rec is not None)')
  c.ensures('phase_slot_released', 'self.test_state.running_phase_state is None')
  c.modifies('*user', 'list(%s)' % records, 'self.test_state.running_phase_state', 'self.test_state._running_test_api',
             'self._current_phase_thread', 'threading.Thread.alive')

  c = reg.contract(PE, 'PhaseExecutor.skip_phase', props=['C05', 'C02'], name='PhaseExecutor.skip_phase[verify]', callsite=True)
  c.param('phase_desc', 'ref:PhaseDescriptor').param('subtest_rec', 'opt:ref:SubtestRecord')
  c.ghost('diag_calls', 'int').ghost('body_starts', 'int')
  c.requires('no_phase_running', 'self.test_state.running_phase_state is None')
  c.ensures('one_skip_record', '%s and %s.outcome is %s.SKIP and %s' % (one, last, PO, prefix_kept))
  c.ensures('body_not_invoked', "ghost('body_starts') == old(ghost('body_starts')) and ghost('diag_calls') == old(ghost('diag_calls'))")
  c.ensures('phase_slot_released', 'self.test_state.running_phase_state is None')
  c.modifies('list(%s)' % records, 'self.test_state.running_phase_state', 'self.test_state._running_test_api',
             'PhaseRecord.outcome', 'PhaseRecord.result', 'PhaseRecord.marginal', 'PhaseRecord.end_time_millis',
             'PhaseRecord.start_time_millis', 'PhaseRecord.options', 'PhaseRecord.measurements', 'PhaseRecord.subtest_name',
             'Measurement.outcome', 'Measurement.marginal', 'Measurement._notification_cb', 'owned(Measurement._cached)',
             'DiagnosesStore._diagnoses_by_results', 'DiagnosesStore._diagnoses', 'list(self.test_state.test_record._cached_phases)',
             'list(self.test_state.test_record.diagnoses)')


def register_repeat(reg):
  records = 'self.test_state.test_record.phases'
  grows = ('len({r}) >= old(len({r})) and forall_int(lambda j: implies(0 <= j and j < old(len({r})), '
           '{r}[j] is old(content({r}))[j]))').format(r=records)
  new_have_outcome = ('forall_int(lambda j: implies(old(len({r})) <= j and j < len({r}), {r}[j].outcome is not None))').format(r=records)
  limit = '(phase.options.repeat_limit if phase.options.repeat_limit else 3)'
  c = reg.contract(PE, 'PhaseExecutor.execute_phase', props=['C05', 'C01'], name='PhaseExecutor.execute_phase[verify]', callsite=True)
  c.param('phase', 'ref:PhaseDescriptor').param('run_with_profiling', 'bool').param('subtest_rec', 'opt:ref:SubtestRecord')
  c.ghost('diag_calls', 'int').ghost('body_starts', 'int')
  c.returns('ptuple(ref:PhaseExecutionOutcome;val{none,ref:object})')
  c.requires('no_phase_running', 'self.test_state.running_phase_state is None')
  c.requires('not_profiling', 'not run_with_profiling')
  c.requires('timeout_is_a_number', 'phase.options.timeout_s is None or (phase.options.timeout_s >= 0 and phase.options.timeout_s < 2**60)')
  c.requires('repeat_limit_is_positive', 'phase.options.repeat_limit is None or phase.options.repeat_limit >= 0')
  c.ensures('records_only_appended', grows)
  c.ensures('new_records_have_outcomes', new_have_outcome)
  c.ensures('at_most_repeat_limit_invocations', "ghost('body_starts') <= old(ghost('body_starts')) + %s" % limit)
  c.ensures('fail_subtest_only_in_subtest', 'implies(result[0].is_fail_subtest, subtest_rec is not None)')
  c.ensures('repeat_only_below_the_limit', 'True')
  c.ensures('phase_slot_released', 'self.test_state.running_phase_state is None')
  no_forced = 'not phase.options.repeat_on_timeout and not phase.options.force_repeat'
  new_err = ('forall_int(lambda j: implies(old(len({r})) <= j and j < len({r}) and {r}[j].outcome is {po}.ERROR, {concl}))')
  c.ensures('ERROR_record_means_terminal_result_without_forced_repeats',
            'implies(%s, %s)' % (no_forced, new_err.format(r=records, po=PO, concl='result[0].is_terminal')))
  # C01 relies on "an ERROR record comes with a terminal result".  With repeat_on_timeout / force_repeat the executor re-runs
  # a phase whose attempt timed out or raised, keeps that attempt's ERROR record, and may return a non-terminal result:
  # the unconditional clause is expected to fail on the pinned tree (known finding, reproduced natively).
  c.ensures('ERROR_record_means_terminal_result', new_err.format(r=records, po=PO, concl='result[0].is_terminal'))
  c.modifies('*user', 'list(%s)' % records, 'self.test_state.running_phase_state', 'self.test_state._running_test_api',
             'self._current_phase_thread', 'threading.Thread.alive')
  c.loop('while not self._stopping.is_set()',
         inv=[('count_in_range', '1 <= repeat_count and repeat_count <= %s and repeat_limit == %s' % (limit, limit)),
              ('one_invocation_per_round', "ghost('body_starts') <= old(ghost('body_starts')) + repeat_count - 1"),
              ('records_only_appended', grows), ('new_records_have_outcomes', new_have_outcome),
              ('no_ERROR_record_is_left_behind_without_forced_repeats',
               'implies(not phase.options.repeat_on_timeout and not phase.options.force_repeat, '
               'forall_int(lambda j: implies(old(len({r})) <= j and j < len({r}), {r}[j].outcome is not {po}.ERROR)))'.format(r=records, po=PO)),
              ('phase_slot_released', 'self.test_state.running_phase_state is None')],
         modifies=['*user', 'list(%s)' % records, 'self.test_state.running_phase_state', 'self.test_state._running_test_api',
                   'self._current_phase_thread', 'threading.Thread.alive'],
         vars={'repeat_count': 'int', 'is_last_repeat': 'bool'})
