"""C08 - plug lifecycle: one instance per run, tearDown exactly once, always.

Plug classes and plug instances are opaque user objects: a plug class is an opaque callable (label plug_type) with the
data attributes logger / __name__ / __module__; calling it constructs an instance (label plug) or raises; every
construction is appended to the ghost log ctor.*; every tearDown thread started for an instance is appended to td.*."""
import z3

from pyvc.values import Val, VRef, VInt, VStr, VBool, NONE, VVal, VSeq, VCallable, Raised, fresh

PL = 'openhtf/plugs/__init__.py'


def register(reg):
  reg.repo.module('openhtf.plugs')
  reg.repo.module('openhtf.core.base_plugs')
  reg.shape('opaque:plug_type', logger='ref:logger', __name__='str', __module__='str')
  reg.shape('opaque:plug', logger='ref:logger')
  reg.shape('PlugManager', _plug_types='set[fn:plug_type]', _plugs_by_type='own:dict[fn:plug_type,fn:plug]', _plugs_by_name='own:dict[str,fn:plug]',
            _plug_descriptors='own:dict[str,ref:PlugDescriptor]', logger='ref:logger')
  reg.shape('_PlugTearDownThread', _plug='fn:plug')
  reg.private('PlugManager', '_plug_types', '_plugs_by_type', '_plugs_by_name', '_plug_descriptors', 'logger')
  reg.private('_PlugTearDownThread', '_plug')
  reg.conf(plug_teardown_timeout_s='val{none,int,float}')
  reg.private_exceptions.update(['InvalidPlugError'])
  reg.prop_meta['C08'] = {
      'not_decided': ['a tearDown abandoned after plug_teardown_timeout_s: only "every wait for a tearDown thread carries the timeout and a thread still '
                      'alive afterwards is killed" is proved; whether the kill is delivered is thread timing (C12)',
                      'ordering of plug tearDown relative to phases / output callbacks at executor level is covered by the C01 / C09 contracts of '
                      'TestExecutor._thread_proc and Test.execute only as far as those are under contract'],
      'bounded': [],
      'assumptions': ['plug classes / instances are opaque: constructing a plug either returns a new instance or raises; tearDown runs in the '
                      'thread started for it (threading.Thread.start is trusted to run _thread_proc, which calls self._plug.tearDown())',
                      'issubclass(plug class, BasePlug), uses_base_tear_down() are fixed unknown facts about the class / instance'],
  }

  # ------------------------------------------------------------------ opaque behaviours
  def construct(ex, st, fn, pos, kwargs):
    ex.ctx.use_trusted('opaque:plug_type()')
    if 'ctor.n' in st.ghost:
      n = st.ghost['ctor.n'].t
      st.ghost['ctor.type'] = VSeq(z3.Store(st.ghost['ctor.type'].t, n, Val.VC(fn.t)))
      st.ghost['ctor.n'] = VInt(n + 1)
    bad = st.fork()
    exc = ex.make_exception(bad, 'Exception', exact=False)
    inst = VCallable(fresh('plug', z3.IntSort()), label='plug')
    st.axiom(inst.t >= 1)
    if 'ctor.n' in st.ghost:
      st.ghost['ctor.inst'] = VSeq(z3.Store(st.ghost['ctor.inst'].t, st.ghost['ctor.n'].t - 1, Val.VC(inst.t)))
    return [(st, inst), (bad, Raised(exc))]
  reg.opaque['plug_type'] = construct
  reg.opaque['plug.uses_base_tear_down'] = lambda ex, st, fn, pos, kw: [(st, VBool(z3.Function('uses_base_tear_down', z3.IntSort(), z3.BoolSort())(fn.t)))]

  def plug_teardown(ex, st, fn, pos, kwargs):
    # (a direct call of tearDown on an instance: update_plug replacing an instance)
    bad = st.fork()
    return [(st, NONE), (bad, Raised(ex.make_exception(bad, 'Exception', exact=False)))]
  reg.opaque['plug.tearDown'] = plug_teardown

  def td_started(ex, st, th):
    if 'td.n' in st.ghost:
      n = st.ghost['td.n'].t
      plug = ex.read_field(st, VRef(th.cls, th.t), '_plug')
      st.ghost['td.plug'] = VSeq(z3.Store(st.ghost['td.plug'].t, n, Val.VC(plug.t)))
      st.ghost['td.n'] = VInt(n + 1)
  reg.start_effects['_PlugTearDownThread'] = td_started

  c = reg.contract(PL, 'PlugManager._make_plug_descriptor', props=())
  c.param('plug_type', 'fn:plug_type').returns('ref:PlugDescriptor').modifies()
  c.trusted('descriptive only (names of the classes in the plug MRO)')

  c = reg.contract(PL, 'PlugManager.get_plug_name', props=())
  c.param('plug_type', 'fn:plug_type').returns('str').modifies().function_of('plug_type')
  c.trusted("'%s.%s' % (module, class name) of the opaque class: a fixed string per class")

  register_teardown(reg)
  reg.replayers['PlugManager.tear_down_plugs'] = replay_plugs
  reg.replayers['PlugManager.initialize_plugs'] = replay_plugs
  register_init(reg)
  register_executor_side(reg)


def td_log(c):
  c.ghost('td.n', 'int').ghost('td.plug', 'seq')
  c.requires('teardown_log', "ghost('td.n') >= 0")


def register_teardown(reg):
  c = reg.contract(PL, 'PlugManager.tear_down_plugs', props=['C08'])
  td_log(c)
  def bounded(ex, st, made):
    # a tearDown thread is only ever waited for with the configured timeout (when one is configured)
    v = ex.conf_value(st, 'plug_teardown_timeout_s')
    from pyvc import values as vv
    t = v.t
    st.ghost['$join_must_be_bounded'] = VBool(z3.If(Val.is_VN(t), z3.BoolVal(False), z3.If(Val.is_VI(t), Val.i(t) != 0,
                                                     z3.If(Val.is_VF(t), z3.Not(vv.f_iszero(Val.f(t))), z3.BoolVal(True)))))
  c.setup(bounded)
  byt = 'self._plugs_by_type'
  c.ensures('one_tearDown_thread_per_constructed_instance_in_order',
            "ghost('td.n') == old(ghost('td.n')) + old(len({d})) and forall_key(lambda k: implies(old(k in {d}), "
            "same(ghost('td.plug')[old(ghost('td.n')) + old(keypos({d}, k))], old(content({d}))[k])))".format(d=byt))
  c.ensures('maps_cleared', 'len(self._plugs_by_type) == 0 and len(self._plugs_by_name) == 0')
  # (while the tearDown threads run, another thread - the operator's abort - may set event flags)
  c.modifies('dict(self._plugs_by_type)', 'dict(self._plugs_by_name)', 'threading.Thread.alive', '_PlugTearDownThread._plug', 'event.flag')
  c.loop('for (plug_type, plug_instance) in self._plugs_by_type.items()',
         inv=[('one_thread_per_instance_so_far',
               "ghost('td.n') == old(ghost('td.n')) + _i and forall_key(lambda k: implies(k in {d} and keypos({d}, k) < _i, "
               "same(ghost('td.plug')[old(ghost('td.n')) + keypos({d}, k)], {d}[k])))".format(d=byt)),
              ('earlier_log_kept', "forall_int(lambda j: implies(0 <= j and j < old(ghost('td.n')), same(ghost('td.plug')[j], old(ghost('td.plug'))[j])))")],
         modifies=['threading.Thread.alive', '_PlugTearDownThread._plug', 'event.flag'])


def ctor_log(c):
  c.ghost('ctor.n', 'int').ghost('ctor.type', 'seq').ghost('ctor.inst', 'seq')
  c.requires('construction_log', "ghost('ctor.n') >= 0")


def register_init(reg):
  byt, byn = 'self._plugs_by_type', 'self._plugs_by_name'
  c = reg.contract(PL, 'PlugManager.update_plug', props=['C08'], name='PlugManager.update_plug[new plug type]')
  c.param('plug_type', 'fn:plug_type').param('plug_value', 'fn:plug')
  c.requires('not_yet_constructed', 'plug_type not in %s' % byt)
  c.ensures('registered_under_its_type_and_name',
            'plug_type in {t} and same({t}[plug_type], plug_value) and same({n}[self.get_plug_name(plug_type)], plug_value)'.format(t=byt, n=byn))
  c.ensures('other_plugs_untouched',
            'len({t}) == old(len({t})) + 1 and forall_key(lambda k: implies(old(k in {t}), k in {t} and same({t}[k], old(content({t}))[k]) and '
            'keypos({t}, k) == old(keypos({t}, k))))'.format(t=byt))
  c.ensures('known_type', 'plug_type in self._plug_types')
  c.ensures('known_types_only_grow', 'forall_key(lambda k: implies(old(k in self._plug_types), k in self._plug_types))')
  c.ensures('a_known_type_leaves_the_set_as_it_is',
            'implies(old(plug_type in self._plug_types), len(self._plug_types) == old(len(self._plug_types)) and forall_key(lambda k: '
            '(k in self._plug_types) == old(k in self._plug_types) and implies(k in self._plug_types, keypos(self._plug_types, k) == old(keypos(self._plug_types, k)))))')
  c.modifies('dict(%s)' % byt, 'dict(%s)' % byn, 'dict(self._plug_descriptors)', 'dict(self._plug_types)')

  c = reg.contract(PL, 'PlugManager.initialize_plugs', props=['C08'])
  ctor_log(c)
  td_log(c)
  c.param('plug_types', 'opt:list[fn:plug_type]')
  n0, n1 = "old(ghost('ctor.n'))", "ghost('ctor.n')"
  wanted = '(k in plug_types if plug_types is not None else k in self._plug_types)'
  new = "{n0} <= j and j < {n1}".format(n0=n0, n1=n1)
  c.ensures('only_the_requested_plug_types_are_constructed',
            "forall_int(lambda j: implies(%s, (ghost('ctor.type')[j] in plug_types) if plug_types is not None else (ghost('ctor.type')[j] in old(content(self._plug_types)))))" % new)
  c.ensures('never_a_type_that_already_has_an_instance',
            "forall_int(lambda j: implies(%s, not (ghost('ctor.type')[j] in old(content(%s)))))" % (new, byt))
  c.ensures('each_type_at_most_once',
            "forall_int(lambda j: forall_int(lambda i: implies(%s and %s <= i and i < j, not same(ghost('ctor.type')[i], ghost('ctor.type')[j]))))" % (new, n0))
  c.ensures('every_constructed_instance_is_registered',
            "forall_int(lambda j: implies(%s, ghost('ctor.type')[j] in %s and same(%s[ghost('ctor.type')[j]], ghost('ctor.inst')[j])))" % (new, byt, byt))
  c.ensures('existing_instances_kept',
            'forall_key(lambda k: implies(old(k in {t}), k in {t} and same({t}[k], old(content({t}))[k])))'.format(t=byt))
  c.raises('Exception', ensures=[('everything_constructed_so_far_is_torn_down', 'len(%s) == 0 and len(%s) == 0' % (byt, byn))])
  c.modifies('dict(%s)' % byt, 'dict(%s)' % byn, 'dict(self._plug_descriptors)', 'dict(self._plug_types)', 'opaque:plug_type.logger', 'opaque:plug.logger',
             'threading.Thread.alive', '_PlugTearDownThread._plug', 'event.flag')
  inv = [('log_grows', "%s >= %s and ghost('td.n') >= 0" % (n1, n0)),
         ('only_the_requested_plug_types_are_constructed',
          "forall_int(lambda j: implies(%s, (ghost('ctor.type')[j] in plug_types) if plug_types is not None else (ghost('ctor.type')[j] in old(content(self._plug_types)))))" % new),
         ('never_a_type_that_already_has_an_instance', "forall_int(lambda j: implies(%s, not (ghost('ctor.type')[j] in old(content(%s)))))" % (new, byt)),
         ('every_constructed_instance_is_registered',
          "forall_int(lambda j: implies(%s, ghost('ctor.type')[j] in %s and same(%s[ghost('ctor.type')[j]], ghost('ctor.inst')[j])))" % (new, byt, byt)),
         ('each_type_at_most_once',
          "forall_int(lambda j: forall_int(lambda i: implies(%s and %s <= i and i < j, not same(ghost('ctor.type')[i], ghost('ctor.type')[j]))))" % (new, n0)),
         ('existing_instances_kept', 'forall_key(lambda k: implies(old(k in {t}), k in {t} and same({t}[k], old(content({t}))[k])))'.format(t=byt)),
         ('the_set_being_iterated_is_not_changed',
          'implies(plug_types is None, len(self._plug_types) == old(len(self._plug_types)) and forall_key(lambda k: '
          '(k in self._plug_types) == old(k in self._plug_types) and implies(k in self._plug_types, keypos(self._plug_types, k) == old(keypos(self._plug_types, k)))))')]
  c.loop('for plug_type in types', inv=inv,
         modifies=['dict(%s)' % byt, 'dict(%s)' % byn, 'dict(self._plug_descriptors)', 'dict(self._plug_types)', 'opaque:plug_type.logger', 'opaque:plug.logger'])


def register_executor_side(reg):
  from contracts.core import TE
  c = reg.contract(TE, 'TestExecutor._initialize_plugs', props=['C08', 'C01'])
  c.param('plug_types', 'opt:list[fn:plug_type]').returns('bool')
  c.requires('running', 'self.test_state is not None')
  term = 'self._last_outcome is not None and self._last_outcome.is_terminal'
  c.ensures('a_constructor_failure_is_a_terminal_error', 'implies(result, %s and isinstance(self._last_outcome.phase_result, phase_executor.ExceptionInfo))' % term)
  c.ensures('and_leaves_no_plug_behind', 'implies(result, len(self.test_state.plug_manager._plugs_by_type) == 0)')
  c.ensures('success_changes_no_outcome', 'implies(not result, self._last_outcome is old(self._last_outcome))')
  c.modifies('self._last_outcome', 'self._last_execution_unit', 'dict(self.test_state.plug_manager._plugs_by_type)',
             'dict(self.test_state.plug_manager._plugs_by_name)', 'dict(self.test_state.plug_manager._plug_descriptors)',
             'dict(self.test_state.plug_manager._plug_types)', 'opaque:plug_type.logger', 'opaque:plug.logger',
             'threading.Thread.alive', '_PlugTearDownThread._plug', 'event.flag')


def replay_plugs(model, ob):
  """PlugManager on concrete plug classes: only requested types are constructed, every instance is torn down exactly once
  (also when tearDown lives on the instance), a hung tearDown is abandoned after the configured timeout."""
  import logging, threading, time
  logging.disable(logging.CRITICAL)
  threading.excepthook = lambda args: None         # a killed tearDown thread ends with ThreadTerminationError: not news
  from openhtf import plugs
  from openhtf.core import base_plugs
  from openhtf.util import configuration
  out = {'scenarios': []}
  bad = False
  made, torn = [], []

  class A(base_plugs.BasePlug):
    def __init__(self):
      made.append('A')

    def tearDown(self):
      torn.append('A')

  class B(base_plugs.BasePlug):
    def __init__(self):
      made.append('B')
      self.tearDown = lambda: torn.append('B')        # effective tearDown on the instance

  m = plugs.PlugManager({A, B})
  m.initialize_plugs(plug_types=[])
  if made:
    bad = True
    out['scenarios'].append({'initialize_plugs(plug_types=[])': 'constructed %r although nothing was requested' % made})
  m.initialize_plugs()
  m.initialize_plugs()
  if sorted(made) != ['A', 'B']:
    bad = True
    out['scenarios'].append({'initialize_plugs() twice': 'constructed %r' % made})
  m.tear_down_plugs()
  if sorted(torn) != ['A', 'B']:
    bad = True
    out['scenarios'].append({'tear_down_plugs()': 'tearDown calls %r for instances %r' % (sorted(torn), sorted(made))})
  gate = threading.Event()

  class Hung(base_plugs.BasePlug):
    def tearDown(self):
      gate.wait(4)
  old = configuration.CONF._loaded_values.get('plug_teardown_timeout_s')
  configuration.CONF.load(plug_teardown_timeout_s=0.2)
  try:
    m2 = plugs.PlugManager({Hung})
    m2.initialize_plugs()
    t0 = time.time()
    m2.tear_down_plugs()
    took = time.time() - t0
  finally:
    gate.set()
    configuration.CONF.load(plug_teardown_timeout_s=old)
  if took > 2.0:
    bad = True
    out['scenarios'].append({'hung tearDown with plug_teardown_timeout_s=0.2': 'tear_down_plugs() returned after %.1f s' % took})
  out['reproduced'] = bad
  return out
