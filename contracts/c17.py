"""C17 - file output is atomic: the destination only ever receives the complete record."""
from contracts.fs_model import fs_setup

CB = 'openhtf/output/callbacks/__init__.py'
AW = 'openhtf/util/atomic_write.py'


def register(reg):
  reg.repo.module('openhtf.output.callbacks')
  reg.repo.module('openhtf.util.atomic_write')
  reg.shape('Atomic', filename='str', temp='ref:file')
  reg.shape('OutputToFile', filename_pattern='val{none,str,fn}', output_file='opt:ref:file')
  reg.prop_meta['C17'] = {
      'not_decided': [],
      'bounded': [],
      'assumptions': [
          'file-system model of contracts/fs_model.py: rename/move on one file system is atomic (replace or fail), a '
          'NamedTemporaryFile has a fresh path different from the destination, buffered data reaches the file as some '
          'prefix until close/flush succeeds, every operation may fail with OSError',
          'a process kill is a stop between two file-system operations: since every operation is atomic in the model, the '
          'obligation "the destination only receives the complete record" after each operation covers every crash point',
          'the serializer is opaque: it returns a str, or yields chunks and may raise after any number of them',
      ],
  }
  dest_ok = "ghost('dest') == self.filename"
  c = reg.contract(CB, 'Atomic.close', props=['C17'])
  c.setup(fs_setup())
  c.requires('staging_file', "%s and self.temp.name in ghost('fs') and self.temp.name != self.filename" % dest_ok)
  c.requires('complete_record_staged', "ghost('complete') == self.temp.written")
  c.raises('OSError', ensures=[('destination_untouched_or_complete',
                                "(self.filename in ghost('fs')) == old(self.filename in ghost('fs')) or ghost('fs')[self.filename] == ghost('complete')")])
  c.ensures('published', "self.filename in ghost('fs') and ghost('fs')[self.filename] == ghost('complete')")
  c.modifies("dict(ghost('fs'))", 'file.is_open')

  c = reg.contract(CB, 'Atomic.write', props=['C17'])
  c.setup(fs_setup())
  c.param('write_data', 'val{str,bytes}').returns('int')
  c.requires('staging_file', "%s and self.temp.name in ghost('fs') and self.temp.name != self.filename" % dest_ok)
  c.raises('OSError')
  c.ensures('staged_not_published', 'self.temp.written == old(self.temp.written) + chunk_bytes(write_data)')
  c.ensures('staging_file_still_there', "self.temp.name in ghost('fs')")
  c.ensures('destination_untouched', "(self.filename in ghost('fs')) == old(self.filename in ghost('fs')) and "
            "implies(self.filename in ghost('fs'), ghost('fs')[self.filename] == old(content(ghost('fs')))[self.filename])")
  c.modifies("dict(ghost('fs'))", 'file.written')

  # ---- atomic_write helper (context manager): body = arbitrary writes to the yielded file
  c = reg.contract(AW, 'atomic_write', props=['C17'], name='atomic_write')
  c.setup(fs_setup())
  c.param('filename', 'str').param('filesync', 'bool')
  c.requires('dest', "ghost('dest') == filename")
  c.hooks['as_context_manager'] = True
  register_more(reg)


def _user_writes(ex, st, fileobj):
  """Harness body for `with atomic_write(...) as f:` -- the caller writes an arbitrary amount of data to f and then
  either finishes (what it wrote is the complete record) or raises part-way."""
  import z3
  from pyvc.values import VStr, Val, fresh
  from contracts import fs_model
  out = []
  w0 = ex.read_field(st, fileobj, 'written').t
  more = fresh('user_data', z3.StringSort())
  total = z3.Concat(w0, more)
  path = ex.read_field(st, fileobj, 'name').t
  for finishes in (True, False):
    s = st.fork()
    ex.write_field(s, fileobj, 'written', VStr(total))
    disk = fresh('disk', z3.StringSort())
    s.axiom(z3.PrefixOf(disk, total))
    fs_model._set(ex, s, path, disk, 'user write')
    if finishes:
      s.assume(s.ghost['complete'].t == total)
      out.append((s, None))
    else:
      out.append((s, ('raise', ex.make_exception(s, 'Exception', exact=False))))
  return out


def register_more(reg):
  c = [c for c in reg.contracts if c.name == 'atomic_write'][0]
  c.hooks['with_body'] = _user_writes
  c.raises('Exception').raises('OSError')
  c.ensures('published', "filename in ghost('fs') and ghost('fs')[filename] == ghost('complete')")
  c.modifies("dict(ghost('fs'))", 'file.written', 'file.is_open', 'file.name')

  # ---- OutputToFile.__call__ with a filename pattern
  c = reg.contract(CB, 'OutputToFile.create_file_name', props=())
  c.param('test_rec', 'ref:TestRecord').returns('str').function_of('self', 'test_rec').modifies()
  c.raises('ValueError', when='self.filename_pattern is None')
  c.ensures('has_pattern', 'self.filename_pattern is not None')
  c.trusted('formats the pattern with the record fields (string formatting not modelled): a pure function of pattern and record')

  # the serializer is an overridable hook: opaque (its behaviour comes from the variant's setup)
  reg.trusted_methods[('OutputToFile', 'serialize_test_record')] = \
      lambda ex, st, args, kwargs: ex.ctx.registry.opaque['serializer'](ex, st, None, args[1:], kwargs)

  for variant in ('str', 'chunks'):
    c = reg.contract(CB, 'OutputToFile.__call__', props=['C17'], name='OutputToFile.__call__[%s]' % variant, callsite=False)
    c.setup(fs_setup())
    c.setup(_serializer(variant))
    c.param('test_rec', 'ref:TestRecord')
    c.requires('file_name_pattern_mode', 'self.filename_pattern is not None and self.filename_pattern')
    c.requires('dest', "ghost('dest') == self.create_file_name(test_rec)")
    c.raises('BaseException').raises('OSError')
    c.ensures('published_exactly_the_serialized_record',
              "ghost('dest') in ghost('fs') and ghost('fs')[ghost('dest')] == ghost('complete')")
    c.modifies("dict(ghost('fs'))", 'file.written', 'file.is_open', 'file.name', 'Atomic.filename', 'Atomic.temp')
    if variant == 'chunks':
      c.loop('for chunk in serialized_record',
             inv=[('staged_prefix', "outfile.temp.written == concat_upto(serialized_record, _i)"),
                  ('staging_file', "outfile.temp.name in ghost('fs') and outfile.temp.name != ghost('dest') and outfile.filename == ghost('dest')"),
                  ('fresh_writer', 'is_fresh(outfile) and is_fresh(outfile.temp)')],
             modifies=["dict(ghost('fs'))", 'file.written'])


def _serializer(variant):
  def setup(ex, st, made):
    import z3
    from pyvc.values import VStr, VInt
    def ser(ex_, s, fn, pos, kwargs):
      if variant == 'str':
        v = ex_.make_input(s, 'serialized', 'str')
        f = z3.Function('str_encode', z3.StringSort(), z3.StringSort())
        s.assume(s.ghost['complete'].t == f(v.t))
        return [(s, v)]
      lst = ex_.make_input(s, 'chunks', 'list[str]')
      s.pyheap[(ex_.oid_of(lst), '$fail_at')] = VInt(z3.Int('fail_at'))
      # the producer may be interrupted by anything, including exceptions outside the Exception hierarchy (thread kill =
      # ThreadTerminationError(SystemExit), KeyboardInterrupt): a partially written record must not be published then either
      s.pyheap[(ex_.oid_of(lst), '$fail_exc')] = 'BaseException'
      cu, _ = ex_.concat_upto_fn(s, ex_.list_items(s, lst))
      s.assume(s.ghost['complete'].t == cu(ex_.list_items(s, lst), ex_.list_len(s, lst)))
      return [(s, lst)]
    ex.ctx.registry.opaque['serializer'] = ser
  return setup
