"""C07 - built-in validators accept exactly the values inside the declared limits."""
import z3
from pyvc.values import Val
from pyvc import values as vv

V = 'openhtf/util/validators.py'
NUM = 'val{none,bool,int,float}'
LIM = 'val{none,bool,int,float,str}'
TYPE = 'opt:fn:converter'

# the statement's notion of "inside the limits", written once as spec text over (v, lo, hi)
def _conv(t, x):
  return '(%s if %s is None else %s(%s))' % (x, t, t, x)


def register(reg):
  reg.repo.module('openhtf.util.validators')
  reg.shape('InRange', _minimum=LIM, _maximum=LIM, _marginal_minimum=LIM, _marginal_maximum=LIM, _type=TYPE)
  reg.shape('AllInRangeValidator', _minimum=NUM, _maximum=NUM, _marginal_minimum=NUM, _marginal_maximum=NUM)
  reg.shape('WithinPercent', expected='val{int,float}', percent='val{int,float}', marginal_percent='val{none,int,float}')
  reg.shape('Equals', _expected='val', _type=TYPE)
  reg.prop_meta['C07'] = {
      'not_decided': [],
      'bounded': ['regex validators: CPython re semantics are trusted; the obligation proved is that the pattern handed to '
                  're.compile is exactly "^" + re.escape(value) + "$"'],
      'assumptions': ['limits are not NaN (precondition: the statement does not define "inside" for NaN limits)',
                      'probe values are None or numeric (bool/int/float); limits are None, numeric, or numeric strings with type= int/float',
                      'the type= converter is a pure total function returning a numeric non-NaN value (uninterpreted: op_converter)'],
  }
  from pyvc.opaque import pure_function
  # the declared type= converter: a pure total function whose results are numeric and not NaN (assumption)
  reg.opaque['converter'] = pure_function(
      'converter', 'val{int,float}',
      facts=lambda t: [z3.Not(z3.And(Val.is_VF(t), vv.f_isnan(Val.f(t))))])
  type_ok = 'True'
  lim_ok = ' and '.join('(not isinstance(self.%s, str) or self._type is not None) and not (isinstance(self.%s, float) and isnan(self.%s))'
                        % (f, f, f) for f in ('_minimum', '_maximum', '_marginal_minimum', '_marginal_maximum'))
  lo, hi = _conv('self._type', 'self._minimum'), _conv('self._type', 'self._maximum')
  mlo, mhi = _conv('self._type', 'self._marginal_minimum'), _conv('self._type', 'self._marginal_maximum')
  conv_nonan = ' and '.join('(self.%s is None or not (isinstance(%s, float) and isnan(%s)))' % (f, c, c)
                            for f, c in (('_minimum', lo), ('_maximum', hi), ('_marginal_minimum', mlo), ('_marginal_maximum', mhi)))

  c = reg.contract(V, 'InRange.__call__', props=['C07'])
  c.param('value', NUM).returns('bool')
  c.requires('types', type_ok).requires('limits', lim_ok)
  c.ensures('inclusive_range',
            'result == (value is not None and not isnan(value)'
            ' and (self._minimum is None or value >= %s) and (self._maximum is None or value <= %s))' % (lo, hi))
  c.modifies()

  c = reg.contract(V, 'InRange.is_marginal', props=['C07'])
  c.param('value', NUM).returns('bool')
  c.requires('types', type_ok).requires('limits', lim_ok)
  c.requires('wf', '(self._marginal_minimum is None or self._minimum is not None) and (self._marginal_maximum is None or self._maximum is not None)')
  c.ensures('marginal_band',
            'result == (value is not None and not isnan(value) and ('
            '(self._marginal_minimum is not None and %s <= value and value <= %s) or '
            '(self._marginal_maximum is not None and %s <= value and value <= %s)))' % (lo, mlo, mhi, hi))
  c.modifies()

  bad = ('(minimum is None and maximum is None)'
         ' or (minimum is not None and maximum is not None and isnum(minimum) and isnum(maximum) and minimum > maximum)'
         ' or (marginal_minimum is not None and minimum is None)'
         ' or (marginal_maximum is not None and maximum is None)'
         ' or (marginal_minimum is not None and isnum(minimum) and isnum(marginal_minimum) and minimum > marginal_minimum)'
         ' or (marginal_maximum is not None and isnum(maximum) and isnum(marginal_maximum) and maximum < marginal_maximum)'
         ' or (marginal_minimum is not None and marginal_maximum is not None and isnum(marginal_minimum)'
         ' and isnum(marginal_maximum) and marginal_minimum > marginal_maximum)')
  for cls, extra in (('InRange', True), ('AllInRangeValidator', False)):
    c = reg.contract(V, cls + '.__init__', props=['C07'])
    for p in ('minimum', 'maximum', 'marginal_minimum', 'marginal_maximum'):
      c.param(p, LIM if extra else NUM)
    if extra:
      c.param('type', TYPE)
    c.raises('ValueError', when=bad)
    c.ensures('accepts_only_consistent', 'not (%s)' % bad)
    c.ensures('stores_limits', 'self._minimum is minimum and self._maximum is maximum and '
              'self._marginal_minimum is marginal_minimum and self._marginal_maximum is marginal_maximum'
              if False else
              'same(self._minimum, minimum) and same(self._maximum, maximum) and '
              'same(self._marginal_minimum, marginal_minimum) and same(self._marginal_maximum, marginal_maximum)')
    if extra:
      c.ensures('stores_type', 'same(self._type, type)')

  reg.replayers['InRange.__call__'] = _replay_inrange('__call__')
  reg.replayers['InRange.is_marginal'] = _replay_inrange('is_marginal')


def _replay_inrange(method):
  def run(model, ob):
    import math
    from openhtf.util import validators
    v = validators.InRange.__new__(validators.InRange)
    for f in ('_minimum', '_maximum', '_marginal_minimum', '_marginal_maximum'):
      setattr(v, f, model.get('self.' + f))
    v._type = None if not model.get('self._type') else float
    value = model.get('in_value')
    conv = (lambda x: x) if v._type is None else v._type
    def spec_call():
      return (value is not None and not math.isnan(value) and (v._minimum is None or value >= conv(v._minimum))
              and (v._maximum is None or value <= conv(v._maximum)))
    def spec_marginal():
      return (value is not None and not math.isnan(value) and (
          (v._marginal_minimum is not None and conv(v._minimum) <= value <= conv(v._marginal_minimum)) or
          (v._marginal_maximum is not None and conv(v._marginal_maximum) <= value <= conv(v._maximum))))
    out = {'inputs': {k: repr(getattr(v, k)) for k in ('_minimum', '_maximum', '_marginal_minimum', '_marginal_maximum', '_type')},
           'value': repr(value), 'method': method}
    try:
      actual = getattr(v, method)(value)
      out['actual'] = repr(actual)
    except Exception as e:   # pylint: disable=broad-except
      out['actual_exception'] = repr(e)
      out['reproduced'] = ob['kind'] in ('safety', 'exc')
      return out
    try:
      expected = spec_call() if method == '__call__' else spec_marginal()
      out['expected'] = repr(expected)
      out['reproduced'] = bool(expected) != bool(actual)
    except Exception as e:   # pylint: disable=broad-except
      out['spec_exception'] = repr(e)
      out['reproduced'] = False
    return out
  return run
