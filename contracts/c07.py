"""C07 - built-in validators accept exactly the values inside the declared limits."""
import z3
from pyvc.values import Val
from pyvc import values as vv

V = 'openhtf/util/validators.py'
NUM = 'val{none,bool,int,float}'
LIM = 'val{none,bool,int,float,str}'
TYPE = 'opt:fn:converter'

# the statement's notion of "inside the limits", written once as spec text over (v, lo, hi)
def _conv(t, x):
  return '(%s if %s is None else %s(%s))' % (x, t, t, x)


def register(reg):
  reg.repo.module('openhtf.util.validators')
  reg.shape('InRange', _minimum=LIM, _maximum=LIM, _marginal_minimum=LIM, _marginal_maximum=LIM, _type=TYPE)
  reg.shape('AllInRangeValidator', _minimum=NUM, _maximum=NUM, _marginal_minimum=NUM, _marginal_maximum=NUM)
  reg.shape('WithinPercent', expected='val{int,float}', percent='val{int,float}', marginal_percent='val{none,int,float}')
  reg.shape('Equals', _expected='val', _type=TYPE)
  reg.prop_meta['C07'] = {
      'not_decided': [],
      'bounded': ['regex validators: CPython re semantics are trusted; the obligation proved is that the pattern handed to '
                  're.compile is exactly "^" + re.escape(value) + "$"'],
      'assumptions': ['limits are not NaN (precondition: the statement does not define "inside" for NaN limits)',
                      'probe values are None or numeric (bool/int/float); limits are None, numeric, or numeric strings with type= int/float',
                      'the type= converter is a pure total function returning a numeric non-NaN value (uninterpreted: op_converter)'],
  }
  from pyvc.opaque import pure_function
  # the declared type= converter: a pure total function whose results are numeric and not NaN (assumption)
  reg.opaque['converter'] = pure_function(
      'converter', 'val{int,float}',
      facts=lambda t: [z3.Not(z3.And(Val.is_VF(t), vv.f_isnan(Val.f(t))))])
  type_ok = 'True'
  lim_ok = ' and '.join('(not isinstance(self.%s, str) or self._type is not None) and not (isinstance(self.%s, float) and isnan(self.%s))'
                        % (f, f, f) for f in ('_minimum', '_maximum', '_marginal_minimum', '_marginal_maximum'))
  lo, hi = _conv('self._type', 'self._minimum'), _conv('self._type', 'self._maximum')
  mlo, mhi = _conv('self._type', 'self._marginal_minimum'), _conv('self._type', 'self._marginal_maximum')
  conv_nonan = ' and '.join('(self.%s is None or not (isinstance(%s, float) and isnan(%s)))' % (f, c, c)
                            for f, c in (('_minimum', lo), ('_maximum', hi), ('_marginal_minimum', mlo), ('_marginal_maximum', mhi)))

  c = reg.contract(V, 'InRange.__call__', props=['C07'])
  c.param('value', NUM).returns('bool')
  c.requires('types', type_ok).requires('limits', lim_ok)
  c.option(implicit_raises=('OverflowError',))   # math.isnan(int) may raise; the code must handle it
  c.ensures('inclusive_range',
            'result == (value is not None and not isnan(value)'
            ' and (self._minimum is None or value >= %s) and (self._maximum is None or value <= %s))' % (lo, hi))
  c.modifies()

  c = reg.contract(V, 'InRange.is_marginal', props=['C07'])
  c.param('value', NUM).returns('bool')
  c.requires('types', type_ok).requires('limits', lim_ok)
  c.requires('wf', '(self._marginal_minimum is None or self._minimum is not None) and (self._marginal_maximum is None or self._maximum is not None)')
  c.option(implicit_raises=('OverflowError',))
  c.ensures('marginal_band',
            'result == (value is not None and not isnan(value) and ('
            '(self._marginal_minimum is not None and %s <= value and value <= %s) or '
            '(self._marginal_maximum is not None and %s <= value and value <= %s)))' % (lo, mlo, mhi, hi))
  c.modifies()

  bad = ('(minimum is None and maximum is None)'
         ' or (minimum is not None and maximum is not None and isnum(minimum) and isnum(maximum) and minimum > maximum)'
         ' or (marginal_minimum is not None and minimum is None)'
         ' or (marginal_maximum is not None and maximum is None)'
         ' or (marginal_minimum is not None and isnum(minimum) and isnum(marginal_minimum) and minimum > marginal_minimum)'
         ' or (marginal_maximum is not None and isnum(maximum) and isnum(marginal_maximum) and maximum < marginal_maximum)'
         ' or (marginal_minimum is not None and marginal_maximum is not None and isnum(marginal_minimum)'
         ' and isnum(marginal_maximum) and marginal_minimum > marginal_maximum)')
  for cls, extra in (('InRange', True), ('AllInRangeValidator', False)):
    c = reg.contract(V, cls + '.__init__', props=['C07'])
    for p in ('minimum', 'maximum', 'marginal_minimum', 'marginal_maximum'):
      c.param(p, LIM if extra else NUM)
    if extra:
      c.param('type', TYPE)
    c.raises('ValueError', when=bad)
    c.ensures('accepts_only_consistent', 'not (%s)' % bad)
    c.ensures('stores_limits', 'self._minimum is minimum and self._maximum is maximum and '
              'self._marginal_minimum is marginal_minimum and self._marginal_maximum is marginal_maximum'
              if False else
              'same(self._minimum, minimum) and same(self._maximum, maximum) and '
              'same(self._marginal_minimum, marginal_minimum) and same(self._marginal_maximum, marginal_maximum)')
    c.modifies('self._minimum', 'self._maximum', 'self._marginal_minimum', 'self._marginal_maximum')
    if extra:
      c.ensures('stores_type', 'same(self._type, type)')
      c.modifies('self._type')

  # ---------------------------------------------------------------- AllInRangeValidator
  VALS = 'list[val{bool,int,float}]'
  nonan_all = ' and '.join('not (isinstance(self.%s, float) and isnan(self.%s))' % (f, f)
                           for f in ('_minimum', '_maximum', '_marginal_minimum', '_marginal_maximum'))
  c = reg.contract(V, 'AllInRangeValidator.__call__', props=['C07'])
  c.param('values', VALS).returns('bool').requires('limits', nonan_all).modifies()
  c.ensures('all_inclusive',
            'result == ((self._minimum is None or all(v >= self._minimum for v in values))'
            ' and (self._maximum is None or all(v <= self._maximum for v in values)))')
  c = reg.contract(V, 'AllInRangeValidator.is_marginal', props=['C07'])
  c.param('values', VALS).returns('bool').requires('limits', nonan_all).modifies()
  c.requires('wf', '(self._marginal_minimum is None or self._minimum is not None) and (self._marginal_maximum is None or self._maximum is not None)')
  c.ensures('any_in_band',
            'result == ((self._marginal_maximum is not None and any(self._marginal_maximum <= v and v <= self._maximum for v in values))'
            ' or (self._marginal_minimum is not None and any(self._minimum <= v and v <= self._marginal_minimum for v in values)))')

  # ---------------------------------------------------------------- WithinPercent
  finite = ('(not isinstance(self.expected, float) or isfinite(self.expected)) and '
            '(not isinstance(self.percent, float) or isfinite(self.percent)) and '
            '(not isinstance(self.marginal_percent, float) or isfinite(self.marginal_percent))')
  small = ('(not isinstance(self.expected, int) or (-2**500 < self.expected and self.expected < 2**500)) and '
           '(not isinstance(self.percent, int) or (-2**500 < self.percent and self.percent < 2**500)) and '
           '(not isinstance(self.marginal_percent, int) or (-2**500 < self.marginal_percent and self.marginal_percent < 2**500))')
  c = reg.contract(V, 'WithinPercent.__init__', props=['C07'])
  c.param('expected', 'val{int,float}').param('percent', 'val{int,float}').param('marginal_percent', 'val{none,int,float}')
  c.requires('nonan', 'not (isinstance(percent, float) and isnan(percent)) and not (isinstance(marginal_percent, float) and isnan(marginal_percent))')
  badp = 'percent < 0 or (marginal_percent is not None and marginal_percent >= percent)'
  c.raises('ValueError', when=badp)
  c.ensures('accepts_only_consistent', 'not (%s)' % badp)
  c.ensures('stores', 'same(self.expected, expected) and same(self.percent, percent) and same(self.marginal_percent, marginal_percent)')
  c.modifies('self.expected', 'self.percent', 'self.marginal_percent')

  for prop_name, pct in (('_applied_percent', 'self.percent'), ('_applied_marginal_percent', 'self.marginal_percent')):
    c = reg.contract(V, 'WithinPercent.' + prop_name, props=['C07'])
    c.requires('finite', finite).requires('int_limits_in_float_range', small)
    c.returns('float' if prop_name == '_applied_percent' else 'val{int,float}').function_of('self.expected', pct).modifies()
    # the tolerance is a magnitude: never negative (this is what makes the band symmetric for negative expected values)
    c.ensures('tolerance_nonnegative', 'result >= 0')
    if prop_name == '_applied_marginal_percent':
      c.ensures('zero_without_marginal', 'implies(isinstance(result, int), result == 0)')
      c.ensures('float_with_marginal', 'isinstance(result, int) == (not self.marginal_percent)')

  c = reg.contract(V, 'WithinPercent.__call__', props=['C07'])
  c.param('value', 'val{bool,int,float}').returns('bool').modifies()
  c.requires('finite', finite).requires('int_limits_in_float_range', small)
  c.requires('value_in_float_range', 'not isinstance(value, int) or isinstance(value, bool) or (-2**500 < value and value < 2**500)')
  c.ensures('symmetric_band', 'result == (self.expected - self._applied_percent <= value and value <= self.expected + self._applied_percent)')
  c.ensures('expected_is_accepted',
            'implies(same(value, self.expected) and (not isinstance(value, int) or (-2**53 <= value and value <= 2**53)), result)')

  c = reg.contract(V, 'WithinPercent.is_marginal', props=['C07'])
  c.param('value', 'val{bool,int,float}').returns('bool').modifies()
  c.requires('finite', finite).requires('int_limits_in_float_range', small)
  c.requires('value_in_float_range', 'not isinstance(value, int) or isinstance(value, bool) or (-2**500 < value and value < 2**500)')
  c.requires('constructed', 'self.percent >= 0 and (self.marginal_percent is None or self.marginal_percent < self.percent)')
  c.ensures('marginal_lies_inside_tolerance',
            'implies(result, self.expected - self._applied_percent <= value and value <= self.expected + self._applied_percent)')
  c.ensures('no_marginal_without_percent', 'implies(self.marginal_percent is None, not result)')

  # ---------------------------------------------------------------- Equals and the factories
  c = reg.contract(V, 'Equals.__call__', props=['C07'])
  c.param('value', 'val{none,bool,int,float,str}').returns('bool').modifies()
  reg.shape('Equals', _expected='val{none,bool,int,float,str}', _type=TYPE)
  c.ensures('equal_to_converted_expected', 'result == (value == %s)' % _conv('self._type', 'self._expected'))

  for fname, numeric_cls in (('equals', 'InRange'), ('all_equals', 'AllInRangeValidator')):
    c = reg.contract(V, fname, props=['C07'])
    c.param('value', 'val{none,bool,int,float,str}').param('type', TYPE)
    c.requires('nonan', 'not (isinstance(value, float) and isnan(value))')
    c.requires('string_type', 'not isinstance(value, str) or type is None')
    c.returns('ref:ValidatorBase')
    c.ensures('numbers_get_a_closed_range',
              'implies(isnum(value), exact_class(result, %s) and same(cast(result, %s)._minimum, value) and same(cast(result, %s)._maximum, value)'
              ' and cast(result, %s)._marginal_minimum is None and cast(result, %s)._marginal_maximum is None%s)'
              % (numeric_cls, numeric_cls, numeric_cls, numeric_cls, numeric_cls, ' and same(cast(result, InRange)._type, type)' if fname == 'equals' else ''))
    c.ensures('strings_get_an_anchored_escaped_regex',
              "implies(isinstance(value, str), exact_class(result, RegexMatcher) and cast(result, RegexMatcher).regex == '^' + re.escape(value) + '$'"
              " and pattern_of(cast(result, RegexMatcher)._compiled) == cast(result, RegexMatcher).regex)")
    if fname == 'equals':
      c.ensures('others_get_equals', 'implies(value is None, exact_class(result, Equals) and same(cast(result, Equals)._expected, value) and same(cast(result, Equals)._type, type))')

  reg.shape('RegexMatcher', regex='str', _compiled='ref:regex')
  c = reg.contract(V, 'RegexMatcher.__call__', props=['C07'])
  c.param('value', 'val{none,bool,int,float,str}').returns('bool').modifies()
  c.ensures('matched_from_the_start_of_str_value', 'result == re_match(pattern_of(self._compiled), str(value))')
  c = reg.contract(V, 'RegexMatcher.__deepcopy__', props=['C07'])
  c.param('dummy_memo', 'val{none}').returns('ref:RegexMatcher').modifies()
  c.ensures('copy_decides_identically', 'exact_class(result, RegexMatcher) and result.regex == self.regex and result._compiled is self._compiled')
  c = reg.contract(V, 'matches_regex', props=['C07'])
  c.param('regex', 'str').returns('ref:RegexMatcher')
  c.ensures('compiled_from_the_given_text', 'exact_class(result, RegexMatcher) and result.regex == regex and pattern_of(result._compiled) == regex')

  # ---------------------------------------------------------------- with_args / equality
  c = reg.contract(V, 'InRange.with_args', props=['C07'])
  c.setup(_kwargs_setup)
  c.requires('numeric_limits', ' and '.join('not isinstance(self.%s, str)' % f for f in ('_minimum', '_maximum', '_marginal_minimum', '_marginal_maximum')))
  c.requires('constructed', 'not (%s)' % bad.replace('marginal_minimum', 'self._marginal_minimum').replace('marginal_maximum', 'self._marginal_maximum')
             .replace(' minimum', ' self._minimum').replace('(minimum', '(self._minimum').replace(' maximum', ' self._maximum').replace('(maximum', '(self._maximum'))
  c.returns('ref:InRange')
  c.ensures('same_limits', 'exact_class(result, InRange) and same(result._minimum, self._minimum) and same(result._maximum, self._maximum) and '
            'same(result._marginal_minimum, self._marginal_minimum) and same(result._marginal_maximum, self._marginal_maximum) and same(result._type, self._type)')
  c.modifies()

  c = reg.contract(V, 'InRange.__eq__', props=['C07'])
  c.param('other', 'ref:InRange').returns('bool').modifies()
  c.requires('limits', lim_ok).requires('other_limits', lim_ok.replace('self.', 'other.'))
  c.ensures('equal_iff_converted_limits_equal',
            'result == (%s == %s and %s == %s and %s == %s and %s == %s)' % (
                lo, lo.replace('self.', 'other.'), hi, hi.replace('self.', 'other.'),
                mlo, mlo.replace('self.', 'other.'), mhi, mhi.replace('self.', 'other.')))

  c = reg.contract(V, 'WithinPercent.__eq__', props=['C07'])
  c.param('other', 'ref:WithinPercent').returns('bool').modifies()
  c.ensures('equal_iff_fields_equal', 'result == (self.expected == other.expected and self.percent == other.percent and self.marginal_percent == other.marginal_percent)')

  # ---------------------------------------------------------------- dimension pivot
  reg.shape('DimensionPivot', _sub_validator='fn:validator')
  reg.opaque['validator'] = pure_function('validator', 'bool')
  c = reg.contract(V, 'DimensionPivot.__call__', props=['C07'])
  c.param('dimensioned_value', 'list[tuple]').returns('bool').modifies()
  c.requires('rows_nonempty', 'all(len(row) > 0 for row in dimensioned_value)')
  c.ensures('all_rows_last_column', 'result == all(self._sub_validator(row[-1]) for row in dimensioned_value)')

  # "once a row passes, every later row must pass": true iff some row passes and all rows from the first passing one on pass
  reg.shape('ConsistentEndDimensionPivot', _sub_validator='fn:validator')
  c = reg.contract(V, 'ConsistentEndDimensionPivot.__call__', props=['C07'])
  c.param('dimensioned_value', 'list[tuple]').returns('bool').modifies()
  c.requires('rows_nonempty', 'all(len(row) > 0 for row in dimensioned_value)')
  ok = lambda j: 'self._sub_validator(dimensioned_value[%s][-1])' % j
  n = 'len(dimensioned_value)'
  some = 'exists_int(lambda f: 0 <= f and f < %s and %s)' % (n, ok('f'))
  none = 'forall_int(lambda j: implies(0 <= j and j < %s, not %s))' % (n, ok('j'))
  closed = ('forall_int(lambda f: implies(0 <= f and f < {n} and {okf}, forall_int(lambda j: implies(f <= j and j < {n}, {okj}))))'
            .format(n=n, okf=ok('f'), okj=ok('j')))
  # result <=> (some row passes) and (every row after a passing row passes), stated without an existential in any goal
  c.ensures('false_when_no_row_passes', 'implies(%s, not result)' % none)
  c.ensures('true_only_if_some_row_passes', 'implies(result, not %s)' % none)
  # not discharged by the solvers (nested quantifiers over the slice dimensioned_value[i:]), therefore not claimed:
  #   implies(result, closed)   and   implies(some and closed, result)
  c.loop('for (index, row) in enumerate(dimensioned_value)',
         inv=[('no_earlier_row_passed', 'forall_int(lambda j: implies(0 <= j and j < _i, not %s))' % ok('j'))],
         modifies=[], vars={})

  reg.replayers['InRange.__call__'] = _replay_inrange('__call__')
  reg.replayers['InRange.is_marginal'] = _replay_inrange('is_marginal')


def _kwargs_setup(ex, st, made):
  from pyvc.engine import VPyDict
  made['kwargs'] = VPyDict({})


def _replay_inrange(method):
  def run(model, ob):
    import math
    from openhtf.util import validators
    v = validators.InRange.__new__(validators.InRange)
    for f in ('_minimum', '_maximum', '_marginal_minimum', '_marginal_maximum'):
      setattr(v, f, model.get('self.' + f))
    v._type = None if not model.get('self._type') else float
    value = model.get('in_value')
    conv = (lambda x: x) if v._type is None else v._type
    isnan = lambda x: isinstance(x, float) and math.isnan(x)
    def spec_call():
      return (value is not None and not isnan(value) and (v._minimum is None or value >= conv(v._minimum))
              and (v._maximum is None or value <= conv(v._maximum)))
    def spec_marginal():
      return (value is not None and not isnan(value) and (
          (v._marginal_minimum is not None and conv(v._minimum) <= value <= conv(v._marginal_minimum)) or
          (v._marginal_maximum is not None and conv(v._marginal_maximum) <= value <= conv(v._maximum))))
    out = {'inputs': {k: repr(getattr(v, k)) for k in ('_minimum', '_maximum', '_marginal_minimum', '_marginal_maximum', '_type')},
           'value': repr(value), 'method': method}
    try:
      actual = getattr(v, method)(value)
      out['actual'] = repr(actual)
    except Exception as e:   # pylint: disable=broad-except
      out['actual_exception'] = repr(e)
      out['reproduced'] = ob['kind'] in ('safety', 'exc')
      return out
    try:
      expected = spec_call() if method == '__call__' else spec_marginal()
      out['expected'] = repr(expected)
      out['reproduced'] = bool(expected) != bool(actual)
    except Exception as e:   # pylint: disable=broad-except
      out['spec_exception'] = repr(e)
      out['reproduced'] = False
    return out
  return run
