"""C01 - no false PASS: finalization ladder, aggregation, first terminal event decides."""
from contracts.core import TS, TE, PE

O = 'Outcome'     # test_record.Outcome as seen from test_state.py (`test_record.Outcome`)


def register(reg):
  reg.closed('ThreadTerminationError', 'ExceptionInfo', 'PhaseExecutionOutcome')
  reg.prop_meta['C01'] = {
      'not_decided': [],
      'bounded': [],
      'assumptions': [
          'INV-ERR (C05): a phase record with outcome ERROR is only produced together with a terminal execution outcome, '
          'so finalize_normally (reached only without a terminal outcome) never sees an ERROR record',
          'TestState._add_multidim_outcome_details only appends outcome details (assumed frame; generator pipeline not verified)',
      ],
  }
  ph = 'self.test_record.phases'
  fin = "self._status is TestState.Status.COMPLETED"
  aborted0 = ("old(self._status is TestState.Status.COMPLETED and self.test_record.outcome is test_record.Outcome.ABORTED)")
  not_final0 = 'not (self._status is TestState.Status.COMPLETED) or self.test_record.outcome is test_record.Outcome.ABORTED'

  c = reg.contract(TS, 'TestState._add_multidim_outcome_details', props=())
  c.modifies('list(self.test_record.outcome_details)')
  c.trusted('appends outcome details for failed multi-dimensional measurements only (itertools generator pipeline)')

  # ---------------------------------------------------------------- finalize_normally: the aggregation of the statement
  c = reg.contract(TS, 'TestState.finalize_normally', props=['C01'])
  c.requires('not_finalized_unless_aborted', not_final0)
  c.requires('records_have_outcomes', 'all(p.outcome is not None for p in %s)' % ph)
  c.requires('finalized_records_have_an_end_time', 'implies(%s, self.test_record.end_time_millis is not None)' % fin)
  any_fail = 'any(p.outcome is test_record.PhaseOutcome.FAIL for p in %s)' % ph
  all_skip = 'all(p.outcome is test_record.PhaseOutcome.SKIP for p in %s)' % ph
  fail_diag = 'any(d.is_failure for d in self.test_record.diagnoses)'
  fail_sub = 'any(s.outcome is test_record.SubtestOutcome.FAIL for s in self.test_record.subtests)'
  c.ensures('abort_is_final', 'implies(%s, self.test_record.outcome is test_record.Outcome.ABORTED)' % aborted0)
  c.ensures('finalized', fin)
  c.ensures('pass_only_if',
            'implies(not %s, (self.test_record.outcome is test_record.Outcome.PASS) == '
            '(len(%s) == 0 or (not %s and not %s and not %s and not %s)))' % (aborted0, ph, any_fail, all_skip, fail_diag, fail_sub))
  c.ensures('fail_cases',
            'implies(not %s and len(%s) > 0 and (%s or (not %s and (%s or %s))), self.test_record.outcome is test_record.Outcome.FAIL)'
            % (aborted0, ph, any_fail, all_skip, fail_diag, fail_sub))
  c.ensures('all_skipped_is_error',
            'implies(not %s and len(%s) > 0 and not %s and %s, self.test_record.outcome is test_record.Outcome.ERROR)'
            % (aborted0, ph, any_fail, all_skip))
  c.ensures('only_pass_fail_error', 'implies(not %s, self.test_record.outcome is test_record.Outcome.PASS or '
            'self.test_record.outcome is test_record.Outcome.FAIL or self.test_record.outcome is test_record.Outcome.ERROR)' % aborted0)
  c.ensures('end_time_set', 'self.test_record.end_time_millis is not None')
  c.modifies('self._status', 'self.test_record.outcome', 'self.test_record.start_time_millis', 'self.test_record.end_time_millis',
             'self.test_record.marginal', 'list(self.test_record.outcome_details)')

  # ---------------------------------------------------------------- failure-exception test
  c = reg.contract(TS, 'TestState._outcome_is_failure_exception', props=['C01'])
  c.param('outcome', 'ref:PhaseExecutionOutcome').returns('bool').modifies()
  c.option(symbolic_types=True)
  c.requires('raised', 'outcome.raised_exception')
  c.ensures('listed_exception_class',
            'result == (isinstance(outcome.phase_result, phase_executor.ExceptionInfo) and any(isinstance(cast(outcome.phase_result, phase_executor.ExceptionInfo).exc_val, fe) '
            'for fe in self.test_options.failure_exceptions))')
  c.loop('for failure_exception in self.test_options.failure_exceptions',
         inv=[('none_matched_so_far', 'forall_int(lambda j: implies(0 <= j and j < _i, not isinstance(outcome.phase_result.exc_val, self.test_options.failure_exceptions[j])))')],
         modifies=[])

  # ---------------------------------------------------------------- finalize_from_phase_outcome
  c = reg.contract(TS, 'TestState.finalize_from_phase_outcome', props=['C01'])
  c.param('phase_execution_outcome', 'ref:PhaseExecutionOutcome').param('phase_name', 'str')
  c.option(symbolic_types=True)
  c.requires('terminal', 'phase_execution_outcome.is_terminal')
  c.requires('not_finalized_unless_aborted', not_final0)
  r = 'phase_execution_outcome.phase_result'
  c.ensures('abort_is_final', 'implies(%s, self.test_record.outcome is test_record.Outcome.ABORTED)' % aborted0)
  c.ensures('finalized', fin)
  c.ensures('timeout_gives_TIMEOUT', 'implies(not %s and %s is None, self.test_record.outcome is test_record.Outcome.TIMEOUT)' % (aborted0, r))
  c.ensures('stop_gives_FAIL', 'implies(not %s and %s is phase_descriptor.PhaseResult.STOP, self.test_record.outcome is test_record.Outcome.FAIL)' % (aborted0, r))
  c.ensures('exception_gives_ERROR_or_listed_FAIL',
            'implies(not %s and phase_execution_outcome.raised_exception, self.test_record.outcome is '
            '(test_record.Outcome.FAIL if (isinstance(%s, phase_executor.ExceptionInfo) and any(isinstance(cast(%s, phase_executor.ExceptionInfo).exc_val, fe) '
            'for fe in self.test_options.failure_exceptions)) else test_record.Outcome.ERROR))' % (aborted0, r, r))
  c.ensures('never_pass', 'self.test_record.outcome is not test_record.Outcome.PASS')
  c.modifies('self._status', 'self.test_record.outcome', 'self.test_record.start_time_millis', 'self.test_record.end_time_millis',
             'list(self.test_record.outcome_details)')

  # ---------------------------------------------------------------- abort
  register_executor(reg)

  c = reg.contract(TS, 'TestState.abort', props=['C01', 'C04'])
  c.ensures('aborted', 'self.test_record.outcome is test_record.Outcome.ABORTED and %s' % fin)
  c.modifies('self._status', 'self.test_record.outcome', 'self.test_record.start_time_millis', 'self.test_record.end_time_millis',
             'list(self.test_record.outcome_details)')


def register_executor(reg):
  ER = '_ExecutorReturn'
  live = 'self.test_state is not None and self._phase_exec is not None and self._phase_exec.test_state is self.test_state'
  term = 'self._last_outcome is not None and self._last_outcome.is_terminal'
  keeps_first = 'implies(old(self._last_outcome) is not None, self._last_outcome is old(self._last_outcome))'
  lo_inv = 'self._last_outcome is None or self._last_outcome.is_terminal'

  recs = 'self.test_state.test_record.phases'
  c = reg.contract(TE, 'TestExecutor._execute_phase', props=['C01', 'C02'])
  c.param('phase', 'ref:PhaseDescriptor').param('subtest_rec', 'opt:ref:SubtestRecord').param('in_teardown', 'bool')
  c.returns('enum:' + ER)
  c.ghost('diag_calls', 'int').ghost('body_starts', 'int')
  c.requires('running', live).requires('remembered_outcome_is_terminal', lo_inv)
  c.requires('no_phase_running', 'self.test_state.running_phase_state is None')
  c.requires('not_profiling', 'not self._run_phases_with_profiling')
  c.ensures('an_ERROR_record_makes_the_run_terminal',
            'implies(not phase.options.repeat_on_timeout and not phase.options.force_repeat and self._last_outcome is None, '
            'forall_int(lambda j: implies(old(len({r})) <= j and j < len({r}), {r}[j].outcome is not test_record.PhaseOutcome.ERROR)))'.format(r=recs))
  c.ensures('records_only_appended', 'len({r}) >= old(len({r})) and forall_int(lambda j: implies(0 <= j and j < old(len({r})), {r}[j] is old(content({r}))[j]))'.format(r=recs))
  c.ensures('phase_slot_released', 'self.test_state.running_phase_state is None')
  for lst in ('subtests', 'branches', 'checkpoints'):
    c.ensures('%s_untouched' % lst, 'len(self.test_state.test_record.%s) == old(len(self.test_state.test_record.%s))' % (lst, lst))
  c.ensures('remembered_outcome_is_terminal', lo_inv)
  c.ensures('first_terminal_event_decides', keeps_first)
  c.ensures('terminal_result_is_remembered', 'implies(result is %s.TERMINAL, %s)' % (ER, term))
  c.ensures('continue_sets_no_outcome', 'implies(result is %s.CONTINUE and old(self._last_outcome) is None, self._last_outcome is None)' % ER)
  c.ensures('fail_subtest_marks_the_subtest_only',
            'implies(subtest_rec is not None and old(subtest_rec.outcome) is not subtest_rec.outcome, '
            'subtest_rec.outcome is test_record.SubtestOutcome.FAIL)')
  c.modifies('self._last_outcome', 'self._last_execution_unit', 'subtest_rec.outcome', 'list(self._phase_profile_stats)',
             'list(self.test_state.test_record.phases)', 'self.test_state.running_phase_state', 'self.test_state._running_test_api',
             'self._phase_exec._current_phase_thread', '*user', 'threading.Thread.alive',
             'DiagnosesStore._diagnoses_by_results', 'DiagnosesStore._diagnoses', 'list(self.test_state.test_record._cached_phases)',
             'Measurement.outcome', 'Measurement.marginal', 'Measurement._notification_cb')

  c = reg.contract(TE, 'TestExecutor._execute_checkpoint', props=['C01', 'C02'])
  c.param('checkpoint', 'ref:Checkpoint').param('subtest_rec', 'opt:ref:SubtestRecord').param('in_teardown', 'bool')
  c.returns('enum:' + ER)
  c.requires('running', live).requires('remembered_outcome_is_terminal', lo_inv)
  c.ensures('remembered_outcome_is_terminal', lo_inv)
  c.ensures('first_terminal_event_decides', keeps_first)
  c.ensures('terminal_result_is_remembered', 'implies(result is %s.TERMINAL, %s)' % (ER, term))
  c.ensures('continue_sets_no_outcome', 'implies(result is %s.CONTINUE and old(self._last_outcome) is None, self._last_outcome is None)' % ER)
  c.ensures('fail_subtest_marks_the_subtest_only',
            'implies(subtest_rec is not None and old(subtest_rec.outcome) is not subtest_rec.outcome, '
            'subtest_rec.outcome is test_record.SubtestOutcome.FAIL)')
  c.ensures('checkpoints_only_appended', 'len(self.test_state.test_record.checkpoints) >= old(len(self.test_state.test_record.checkpoints))')
  c.modifies('self._last_outcome', 'self._last_execution_unit', 'subtest_rec.outcome', 'list(self.test_state.test_record.checkpoints)',
             'list(self.test_state.test_record._cached_checkpoints)')

  # ---------------------------------------------------------------- the ladder: abort > terminal outcome > aggregation
  c = reg.contract(TE, 'TestExecutor._execute_test_teardown', props=['C01', 'C04', 'C08'])
  c.option(symbolic_types=True)
  ts = 'self.test_state'
  c.requires('running', 'self.test_state is not None')
  c.requires('not_finalized', 'not (%s._status is test_state.TestState.Status.COMPLETED)' % ts)
  c.requires('records_have_outcomes', 'all(p.outcome is not None for p in %s.test_record.phases)' % ts)
  # INV-ERR, maintained by _execute_phase (see an_ERROR_record_makes_the_run_terminal; known finding for forced repeats)
  c.requires('an_ERROR_record_made_the_run_terminal',
             'implies(not (%s), all(p.outcome is not test_record.PhaseOutcome.ERROR for p in %s.test_record.phases))' % (term, ts))
  c.ensures('PASS_means_no_FAIL_or_ERROR_record',
            'implies(%s.test_record.outcome is test_record.Outcome.PASS, all(p.outcome is not test_record.PhaseOutcome.ERROR and '
            'p.outcome is not test_record.PhaseOutcome.FAIL for p in %s.test_record.phases))' % (ts, ts))
  out = ts + '.test_record.outcome'
  TO = 'test_record.Outcome'
  c.ensures('finalized', '%s._status is test_state.TestState.Status.COMPLETED' % ts)
  c.ensures('plugs_torn_down_whatever_the_outcome', 'len(%s.plug_manager._plugs_by_type) == 0 and len(%s.plug_manager._plugs_by_name) == 0' % (ts, ts))
  c.ensures('abort_wins', 'implies(self._abort.is_set(), %s is %s.ABORTED)' % (out, TO))
  c.ensures('terminal_outcome_never_passes',
            'implies(not self._abort.is_set() and %s, %s is not %s.PASS and %s is not %s.ABORTED)' % (term, out, TO, out, TO))
  c.ensures('timeout', 'implies(not self._abort.is_set() and %s and self._last_outcome.phase_result is None, %s is %s.TIMEOUT)' % (term, out, TO))
  c.ensures('stop', 'implies(not self._abort.is_set() and %s and self._last_outcome.phase_result is phase_descriptor.PhaseResult.STOP, %s is %s.FAIL)' % (term, out, TO))
  any_fail = 'any(p.outcome is test_record.PhaseOutcome.FAIL for p in %s.test_record.phases)' % ts
  all_skip = 'all(p.outcome is test_record.PhaseOutcome.SKIP for p in %s.test_record.phases)' % ts
  fail_diag = 'any(d.is_failure for d in %s.test_record.diagnoses)' % ts
  fail_sub = 'any(s.outcome is test_record.SubtestOutcome.FAIL for s in %s.test_record.subtests)' % ts
  c.ensures('pass_only_by_aggregation',
            'implies(%s is %s.PASS, not self._abort.is_set() and not (%s) and (len(%s.test_record.phases) == 0 or '
            '(not %s and not %s and not %s and not %s)))' % (out, TO, term, ts, any_fail, all_skip, fail_diag, fail_sub))
  c.modifies('TestState._status', 'TestRecord.outcome', 'TestRecord.start_time_millis', 'TestRecord.end_time_millis',
             'TestRecord.marginal', 'list(self.test_state.test_record.outcome_details)',
             'PlugManager._plugs_by_type', 'PlugManager._plugs_by_name', 'dict', 'threading.Thread.alive', '_PlugTearDownThread._plug', 'event.flag')
