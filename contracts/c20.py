"""C20 - configuration: flag > loaded > default, consistent views, exact restore."""
import z3

from pyvc.values import Val
from pyvc import values as vv

C = 'openhtf/util/configuration.py'


def prec(k):
  """The statement's lookup rule for a declared key k, as spec text."""
  return ('(self._flag_values[{k}] if {k} in self._flag_values else '
          '(self._loaded_values[{k}] if {k} in self._loaded_values else self._declarations[{k}].default_value))').format(k=k)


def has_value(k):
  return ('({k} in self._flag_values or {k} in self._loaded_values or self._declarations[{k}].has_default)').format(k=k)


def register(reg):
  reg.repo.module('openhtf.util.configuration')
  reg.shape('_Configuration', _declarations='dict[ref:Declaration]', _flag_values='dict[val]', _loaded_values='dict[val]',
            _flags='ref:object', _lock='ref:rlock')
  reg.shape('Declaration', name='str', description='val{none,str}', default_value='val')
  reg.shape('_ConfigValueHolder', _declaration='ref:Declaration', _configuration='ref:_Configuration')
  reg.prop_meta['C20'] = {
      'not_decided': [],
      'bounded': [],
      'assumptions': ['@threads.synchronized only adds locking (decorator bodies are not executed by the verifier)',
                      'yaml.safe_load / file reading are outside the verified code: load_from_file is reduced to load_from_dict; '
                      'reset() is verified for a process started without --config-file',
                      'configuration keys are str (bytes keys are decoded before use; not modelled)',
                      'the history quantifier is discharged by induction: every operation is verified from an arbitrary '
                      'pre-state of the three maps (declarations, loaded values, flag values)'],
  }

  c = reg.contract(C, '_Configuration.__getitem__', props=['C20'])
  c.param('item', 'str').returns('val').modifies()
  c.raises('UndeclaredKeyError', when='item not in self._declarations')
  c.raises('UnsetKeyError', when='item in self._declarations and not %s' % has_value('item'))
  c.ensures('declared', 'item in self._declarations')
  c.ensures('flag_then_loaded_then_default', 'same(result, %s)' % prec('item'))
  c.ensures('has_a_value', has_value('item'))

  c = reg.contract(C, '_Configuration.__contains__', props=['C20'])
  c.param('name', 'str').returns('bool').modifies()
  c.ensures('agrees_with_item_access', 'result == (name in self._declarations and %s)' % has_value('name'))

  c = reg.contract(C, '_Configuration.__getattr__', props=['C20'])
  c.param('field', 'str').returns('val').modifies()
  c.requires('nonempty', 'len(field) > 0')
  c.raises('AttributeError', when='not field[0].islower()')
  c.raises('UndeclaredKeyError', when='field not in self._declarations')
  c.raises('UnsetKeyError', when='field in self._declarations and not %s' % has_value('field'))
  c.ensures('same_as_item_access', 'field in self._declarations and %s and same(result, %s)' % (has_value('field'), prec('field')))

  c = reg.contract(C, '_ConfigValueHolder.value', props=['C20'])
  c.returns('val').modifies()
  k = 'self._declaration.name'
  cf = lambda t: t.replace('self._declarations', 'self._configuration._declarations').replace(
      'self._flag_values', 'self._configuration._flag_values').replace('self._loaded_values', 'self._configuration._loaded_values')
  c.raises('UndeclaredKeyError', when=cf('%s not in self._declarations' % k))
  c.raises('UnsetKeyError', when=cf('%s in self._declarations and not %s' % (k, has_value(k))))
  c.ensures('same_as_item_access', cf('same(result, %s)' % prec(k)))

  c = reg.contract(C, '_Configuration.__setattr__', props=['C20'], callsite=False)
  c.param('field', 'str').param('value', 'val')
  c.setup(_const_field('_extra_attribute'))
  c.raises('AttributeError', when='len(field) > 0 and field[0].islower()')
  c.ensures('only_non_keys', 'not (len(field) > 0 and field[0].islower())')
  c.modifies('self._extra_attribute')

  c = reg.contract(C, '_Configuration.reset', props=['C20'])
  c.requires('no_config_file_flag', 'self._flags.config_file is None')
  reg.shape('object', config_file='val{none}')
  c.ensures('loaded_values_dropped', 'len(self._loaded_values) == 0 and forall_str(lambda k: k not in self._loaded_values)')
  c.ensures('flags_kept', 'self._flag_values is old(self._flag_values) and content(self._flag_values) == old(content(self._flag_values))')
  c.ensures('declarations_kept', 'self._declarations is old(self._declarations) and content(self._declarations) == old(content(self._declarations))')
  c.modifies('self._loaded_values')

  for variant, kw in (('no default', {}), ('with default', {'default_value': 'val'})):
    c = reg.contract(C, '_Configuration.declare', props=['C20'], name='_Configuration.declare[%s]' % variant, callsite=False)
    c.param('name', 'str').param('description', 'val{none,str}')
    c.setup(_kwargs(kw))
    if kw:
      c.requires('default_is_a_value', "kwargs['default_value'] is not _DefaultSetting.NOT_SET")
    c.returns('ref:_ConfigValueHolder')
    c.raises('InvalidKeyError', when='not (len(name) > 0 and name[0].islower())')
    c.raises('KeyAlreadyDeclaredError', when='name in old(content(self._declarations))',
             ensures=[('nothing_changed', 'content(self._declarations) == old(content(self._declarations))')])
    c.ensures('was_new_and_valid', 'len(name) > 0 and name[0].islower() and name not in old(content(self._declarations))')
    c.ensures('declared_now', 'name in self._declarations and self._declarations[name].name == name')
    c.ensures('others_untouched', 'forall_str(lambda k: implies(k != name, (k in self._declarations) == (k in old(content(self._declarations)))'
              ' and implies(k in self._declarations, self._declarations[k] is old(content(self._declarations))[k])))')
    c.ensures('default_recorded', 'self._declarations[name].has_default == %s' % ('True' if kw else 'False'))
    c.ensures('holder_bound', 'result._declaration is self._declarations[name] and result._configuration is self')
    c.modifies('dict(self._declarations)')


def _const_field(name):
  def setup(ex, st, made):
    from pyvc.values import VStr
    made['field'] = VStr(name)
  return setup


def _kwargs(kinds):
  def setup(ex, st, made):
    from pyvc.engine import VPyDict
    made['kwargs'] = VPyDict({k: ex.make_input(st, 'kw_' + k, v) for k, v in kinds.items()})
  return setup
