"""C20 - configuration: flag > loaded > default, consistent views, exact restore."""
import z3

from pyvc.values import Val
from pyvc import values as vv

C = 'openhtf/util/configuration.py'


def prec(k):
  """The statement's lookup rule for a declared key k, as spec text."""
  return ('(self._flag_values[{k}] if {k} in self._flag_values else '
          '(self._loaded_values[{k}] if {k} in self._loaded_values else self._declarations[{k}].default_value))').format(k=k)


def has_value(k):
  return ('({k} in self._flag_values or {k} in self._loaded_values or self._declarations[{k}].has_default)').format(k=k)


def register(reg):
  for u in ('_Configuration.save_and_restore._saving_wrapper', '_Configuration._asdict', '_Configuration.load_from_file'):
    reg.replayers[u] = replay_configuration
  reg.repo.module('openhtf.util.configuration')
  reg.shape('_Configuration', _declarations='dict[ref:Declaration]', _flag_values='dict[val]', _loaded_values='dict[val]',
            _flags='ref:object', _lock='ref:rlock')
  reg.shape('Declaration', name='str', description='val{none,str}', default_value='val')
  reg.shape('_ConfigValueHolder', _declaration='ref:Declaration', _configuration='ref:_Configuration')
  reg.prop_meta['C20'] = {
      'not_decided': [],
      'bounded': [],
      'assumptions': ['@threads.synchronized only adds locking (decorator bodies are not executed by the verifier)',
                      'yaml.safe_load / file reading are outside the verified code: load_from_file is reduced to load_from_dict; '
                      'reset() is verified for a process started without --config-file',
                      'configuration keys are str (bytes keys are decoded before use; not modelled)',
                      'the history quantifier is discharged by induction: every operation is verified from an arbitrary '
                      'pre-state of the three maps (declarations, loaded values, flag values)'],
  }

  c = reg.contract(C, '_Configuration.__getitem__', props=['C20'])
  c.param('item', 'str').returns('val').modifies()
  c.raises('UndeclaredKeyError', when='item not in self._declarations')
  c.raises('UnsetKeyError', when='item in self._declarations and not %s' % has_value('item'))
  c.ensures('declared', 'item in self._declarations')
  c.ensures('flag_then_loaded_then_default', 'same(result, %s)' % prec('item'))
  c.ensures('has_a_value', has_value('item'))

  c = reg.contract(C, '_Configuration.__contains__', props=['C20'])
  c.param('name', 'str').returns('bool').modifies()
  c.ensures('agrees_with_item_access', 'result == (name in self._declarations and %s)' % has_value('name'))

  c = reg.contract(C, '_Configuration.__getattr__', props=['C20'])
  c.param('field', 'str').returns('val').modifies()
  c.requires('nonempty', 'len(field) > 0')
  c.raises('AttributeError', when='not field[0].islower()')
  c.raises('UndeclaredKeyError', when='field not in self._declarations')
  c.raises('UnsetKeyError', when='field in self._declarations and not %s' % has_value('field'))
  c.ensures('same_as_item_access', 'field in self._declarations and %s and same(result, %s)' % (has_value('field'), prec('field')))

  c = reg.contract(C, '_ConfigValueHolder.value', props=['C20'])
  c.returns('val').modifies()
  k = 'self._declaration.name'
  cf = lambda t: t.replace('self._declarations', 'self._configuration._declarations').replace(
      'self._flag_values', 'self._configuration._flag_values').replace('self._loaded_values', 'self._configuration._loaded_values')
  c.raises('UndeclaredKeyError', when=cf('%s not in self._declarations' % k))
  c.raises('UnsetKeyError', when=cf('%s in self._declarations and not %s' % (k, has_value(k))))
  c.ensures('same_as_item_access', cf('same(result, %s)' % prec(k)))

  c = reg.contract(C, '_Configuration.__setattr__', props=['C20'], callsite=False)
  c.param('field', 'str').param('value', 'val')
  c.setup(_const_field('_extra_attribute'))
  c.raises('AttributeError', when='len(field) > 0 and field[0].islower()')
  c.ensures('only_non_keys', 'not (len(field) > 0 and field[0].islower())')
  c.modifies('self._extra_attribute')

  c = reg.contract(C, '_Configuration.reset', props=['C20'])
  c.requires('no_config_file_flag', 'self._flags.config_file is None')
  reg.shape('object', config_file='val{none}')
  c.ensures('loaded_values_dropped', 'len(self._loaded_values) == 0 and forall_str(lambda k: k not in self._loaded_values)')
  c.ensures('flags_kept', 'self._flag_values is old(self._flag_values) and content(self._flag_values) == old(content(self._flag_values))')
  c.ensures('declarations_kept', 'self._declarations is old(self._declarations) and content(self._declarations) == old(content(self._declarations))')
  c.modifies('self._loaded_values')

  register_loading(reg)
  register_loading2(reg)
  from pyvc.opaque import effectful
  # the user function wrapped by save_and_restore may load / reset configuration and mutate any pre-existing container
  reg.opaque['wrapped_function'] = effectful('wrapped_function', 'val', may_raise=('Exception', 'BaseException'),
                                             havoc=('*pre-existing',))

  for variant, kw in (('no default', {}), ('with default', {'default_value': 'val'})):
    c = reg.contract(C, '_Configuration.declare', props=['C20'], name='_Configuration.declare[%s]' % variant, callsite=False)
    c.param('name', 'str').param('description', 'val{none,str}')
    c.setup(_kwargs(kw))
    if kw:
      c.requires('default_is_a_value', "kwargs['default_value'] is not _DefaultSetting.NOT_SET")
    c.returns('ref:_ConfigValueHolder')
    c.raises('InvalidKeyError', when='not (len(name) > 0 and name[0].islower())')
    c.raises('KeyAlreadyDeclaredError', when='name in old(content(self._declarations))',
             ensures=[('nothing_changed', 'content(self._declarations) == old(content(self._declarations))')])
    c.ensures('was_new_and_valid', 'len(name) > 0 and name[0].islower() and name not in old(content(self._declarations))')
    c.ensures('declared_now', 'name in self._declarations and self._declarations[name].name == name')
    c.ensures('others_untouched', 'forall_str(lambda k: implies(k != name, (k in self._declarations) == (k in old(content(self._declarations)))'
              ' and implies(k in self._declarations, self._declarations[k] is old(content(self._declarations))[k])))')
    c.ensures('default_recorded', 'self._declarations[name].has_default == %s' % ('True' if kw else 'False'))
    c.ensures('holder_bound', 'result._declaration is self._declarations[name] and result._configuration is self')
    c.modifies('dict(self._declarations)')


def acc(k, allow='_allow_undeclared', override='_override'):
  return ('(({k} in self._declarations or {a}) and ({k} not in old(content(self._loaded_values)) or {o}))'
          ).format(k=k, a=allow, o=override)


def loaded_after(D, extra_guard='True', allow='_allow_undeclared', override='_override'):
  """Statement's loading rule: contents of the loaded map after merging dictionary D into the old contents
  (two clauses: which keys are loaded, and with which value)."""
  take = '(k in {D} and {g} and {acc})'.format(D=D, g=extra_guard, acc=acc('k', allow, override))
  dom = ('forall_key(lambda k: (k in self._loaded_values) == (k in old(content(self._loaded_values)) or {take}))'
         ).format(take=take)
  val = ('forall_key(lambda k: implies(k in self._loaded_values, same(self._loaded_values[k], '
         '({D}[k].decode() if isinstance({D}[k], bytes) else {D}[k]) if {take} else old(content(self._loaded_values))[k])))'
         ).format(D=D, take=take)
  return dom, val


def register_loading(reg):
  c = reg.contract(C, '_Configuration.load_from_dict', props=['C20'])
  c.param('dictionary', 'dict[str,val]').param('_override', 'bool').param('_allow_undeclared', 'bool')
  c.requires('distinct_maps', 'dictionary is not self._loaded_values and dictionary is not self._declarations '
             'and self._loaded_values is not self._declarations and self._flag_values is not self._loaded_values')
  c.ensures('loading_rule_keys', loaded_after('dictionary')[0])
  c.ensures('loading_rule_values', loaded_after('dictionary')[1])
  c.ensures('same_map_object', 'self._loaded_values is old(self._loaded_values)')
  c.ensures('declarations_and_flags_kept', 'content(self._declarations) == old(content(self._declarations)) and '
            'content(self._flag_values) == old(content(self._flag_values))')
  c.modifies('dict(self._loaded_values)')
  c.loop('for (key, value) in dictionary.items()',
         inv=[('keys_for_processed_prefix', loaded_after('dictionary', 'keypos(dictionary, k) < _i')[0]),
              ('values_for_processed_prefix', loaded_after('dictionary', 'keypos(dictionary, k) < _i')[1]),
              ('source_unchanged', 'content(dictionary) == old(content(dictionary))'),
              ('declarations_kept', 'content(self._declarations) == old(content(self._declarations))')],
         modifies=['dict(self._loaded_values)', 'list(undeclared_keys)'])


def register_loading2(reg):
  distinct = ('{d} is not self._loaded_values and {d} is not self._declarations and self._loaded_values is not '
              'self._declarations and self._flag_values is not self._loaded_values')
  c = reg.contract(C, '_Configuration.load', props=['C20'])
  c.param('_override', 'bool').param('_allow_undeclared', 'bool').param('kwargs', 'dict[str,val]')
  c.requires('distinct_maps', distinct.format(d='kwargs'))
  c.ensures('loading_rule_keys', loaded_after('kwargs')[0]).ensures('loading_rule_values', loaded_after('kwargs')[1])
  c.modifies('dict(self._loaded_values)')

  c = reg.contract(C, '_Configuration.load_from_file', props=['C20'])
  c.param('yamlfile', 'ref:file').param('_override', 'bool').param('_allow_undeclared', 'bool')
  c.requires('distinct_maps', distinct.format(d='yaml_dict_of(yamlfile)'))
  c.raises('ConfigurationInvalidError', ensures=[('nothing_loaded', 'content(self._loaded_values) == old(content(self._loaded_values))')])
  c.ensures('loading_rule_keys', loaded_after('yaml_dict_of(yamlfile)')[0])
  c.ensures('loading_rule_values', loaded_after('yaml_dict_of(yamlfile)')[1])
  c.modifies('dict(self._loaded_values)')

  # ---- _asdict: for declared keys the snapshot agrees with item access
  D, L, F = 'self._declarations', 'self._loaded_values', 'self._flag_values'
  c = reg.contract(C, '_Configuration._asdict', props=['C20'])
  c.returns('dict[str,val]')
  c.requires('distinct_maps', '%s is not %s and %s is not %s and %s is not %s' % (D, L, D, F, L, F))
  c.ensures('declared_keys_present_iff_they_have_a_value',
            'forall_key(lambda k: implies(k in %s, (k in result) == %s))' % (D, has_value('k')))
  c.ensures('declared_keys_agree_with_item_access',
            'forall_key(lambda k: implies(k in %s and k in result, same(result[k], %s)))' % (D, prec('k')))
  c.ensures('maps_untouched', ' and '.join('content(%s) == old(content(%s))' % (x, x) for x in (D, L, F)))
  c.modifies()
  flagged = '(k in {F} and keypos({F}, k) < _i and k in {D})'.format(F=F, D=D)
  c.loop('for (key, value) in self._flag_values.items()',
         inv=[('keys', 'forall_key(lambda k: (k in retval) == ((k in {D} and {D}[k].has_default) or k in {L} or {fl}))'
               .format(D=D, L=L, fl=flagged)),
              ('values', 'forall_key(lambda k: implies(k in retval, same(retval[k], {F}[k] if {fl} else '
               '({L}[k] if k in {L} else {D}[k].default_value))))'.format(D=D, L=L, F=F, fl=flagged)),
              ('maps_untouched', ' and '.join('content(%s) == old(content(%s))' % (x, x) for x in (D, L, F))),
              ('fresh_result', 'is_fresh(retval)')],
         modifies=['dict(retval)'])

  c = reg.contract(C, '_ConfigValueHolder.default', props=['C20'])
  c.returns('val').modifies()
  c.raises('DefaultNotDefinedError', when='not self._declaration.has_default')
  c.ensures('declared_default', 'self._declaration.has_default and same(result, self._declaration.default_value)')

  # ---- save_and_restore: the wrapper restores exactly the loaded values present when it was called
  c = reg.contract(C, '_Configuration.save_and_restore._saving_wrapper', props=['C20'])
  c.setup(_wrapper_closure)
  restored = 'content(self._loaded_values) == old(content(self._loaded_values))'
  c.requires('decoration_values_are_a_separate_dict', 'config_values is not self._loaded_values and config_values is not '
             'self._declarations and self._loaded_values is not self._declarations and self._flag_values is not self._loaded_values')
  c.ensures('restored_on_return', restored)
  c.raises('Exception', ensures=[('restored_when_the_function_raises', restored)])
  c.raises('BaseException', ensures=[('restored_when_the_function_raises', restored)])
  c.modifies('*')


def _wrapper_closure(ex, st, made):
  """The closure of _saving_wrapper is produced by executing the real decorator save_and_restore(_func, **config_values)
  on symbolic arguments; whatever it captures (self, _func, config_values, and anything a later version of the code
  computes at decoration time) is what the wrapper sees.  Arbitrary configuration operations may happen between
  decoration and the call of the wrapper: the pre-existing heap is havocked in between."""
  from pyvc.engine import VPyDict
  from pyvc.values import VTuple, VFunc, Raised, Unsupported
  from pyvc.opaque import havoc_preexisting
  self_ = ex.make_input(st, 'self', 'ref:_Configuration')
  func = ex.make_input(st, '_func', 'fn:wrapped_function')
  cfgv = ex.make_input(st, 'config_values', 'dict[str,val]')
  st.env = {'$module': ex.ctx.repo.module('openhtf.util.configuration')}
  outer = ex.ctx.repo.func(C, '_Configuration.save_and_restore')
  ex.call_stack.append(outer)       # not the unit root: callee contracts apply
  try:
    rs = ex.call_function(st, outer, [self_, func], {'$kwargs': cfgv})
  finally:
    ex.call_stack.pop()
  rs = [(s, v) for s, v in rs if not isinstance(v, Raised)]
  if len(rs) != 1 or not isinstance(rs[0][1], VFunc):
    raise Unsupported('save_and_restore(f, **values) did not return a single wrapper function')
  s, wrapper = rs[0]
  for k in ('env', 'heap', 'pyheap', 'pc', 'next_oid', 'tags', 'ghost', 'ax'):
    setattr(st, k, getattr(s, k))
  havoc_preexisting(ex, st)
  closure = dict(wrapper.closure)
  made['$closure'] = closure
  made['args'] = VTuple([])
  made['kwargs'] = VPyDict({})
  made['self'] = closure['self']         # visible to the spec expressions
  made['config_values'] = closure['config_values']


def _const_field(name):
  def setup(ex, st, made):
    from pyvc.values import VStr
    made['field'] = VStr(name)
  return setup


def _kwargs(kinds):
  def setup(ex, st, made):
    from pyvc.engine import VPyDict
    made['kwargs'] = VPyDict({k: ex.make_input(st, 'kw_' + k, v) for k, v in kinds.items()})
  return setup


# --------------------------------------------------------------------------------------------------------------------
# replay on the real code: a fresh _Configuration instance driven through small histories
# --------------------------------------------------------------------------------------------------------------------
def _fresh_conf():
  import sys
  from openhtf.util import configuration
  argv, sys.argv = sys.argv, sys.argv[:1]        # the constructor parses the command line for --config-value flags
  try:
    return configuration._Configuration()
  finally:
    sys.argv = argv


def replay_configuration(model, ob):
  import io, os, tempfile
  out = {'scenarios': []}
  bad = False

  def note(what, want, got):
    nonlocal bad
    if want != got:
      bad = True
      out['scenarios'].append({'history': what, 'prescribed': repr(want), 'actual': repr(got)})
  try:
    # save_and_restore restores what was loaded when the wrapped function was CALLED
    conf = _fresh_conf()
    conf.declare('a', default_value=0)
    conf.load(a=1)

    @conf.save_and_restore
    def body():
      conf.load(a=3)
      return conf['a']
    conf.load(a=2)
    inside = body()
    note('declare a; load a=1; decorate; load a=2; call (loads a=3)', (3, 2), (inside, conf['a']))
    # _asdict agrees with lookups: flag values win over loaded values
    conf = _fresh_conf()
    conf.declare('k', default_value='d')
    conf.load(k='loaded')
    conf._flag_values['k'] = 'flag'
    note('declare k; load k=loaded; flag k=flag', (conf['k'], conf['k']), (conf['k'], conf._asdict().get('k')))
    # load_from_file forwards _override
    conf = _fresh_conf()
    conf.declare('f', default_value=0)
    conf.load(f=1)
    with tempfile.NamedTemporaryFile('w', suffix='.yaml', delete=False) as fh:
      fh.write('f: 9\n')
    try:
      with open(fh.name) as yf:
        conf.load_from_file(yf, _override=False)
    finally:
      os.unlink(fh.name)
    note('declare f; load f=1; load_from_file({f: 9}, _override=False)', 1, conf['f'])
  except Exception as e:   # pylint: disable=broad-except
    out['harness_error'] = repr(e)
  out['reproduced'] = bad
  return out
