"""C14 / C15 - ADB streams and connection lifecycle: the sequential (per call) rules.

Ghost message log tx.* (command, arg0, arg1, data of every AdbMessage handed to transport.write_message, filled by a hook
of its C13 contract); ghost queue log q.* (messages put on stream queues)."""
import z3

from pyvc.values import Val, VRef, VInt, VStr, VBool, NONE, VVal, VSeq, VCallable, Raised, fresh

P = 'openhtf/plugs/usb/adb_protocol.py'
A = 'openhtf/plugs/usb/adb_message.py'
CS = "class_named('AdbStreamTransport.ClosedState')"
NAMES = ('SYNC', 'CNXN', 'AUTH', 'OPEN', 'OKAY', 'CLSE', 'WRTE')


def tx(c):
  c.ghost('tx.n', 'int').ghost('tx.cmd', 'seq[int]').ghost('tx.arg0', 'seq[int]').ghost('tx.arg1', 'seq[int]').ghost('tx.data', 'seq[str]')
  c.requires('message_log', "ghost('tx.n') >= 0")


def sent(k, cmd, arg0, arg1, data=None):
  s = ("ghost('tx.cmd')[{k}] == wire_command('{c}') and ghost('tx.arg0')[{k}] == {a0} and ghost('tx.arg1')[{k}] == {a1}"
       .format(k=k, c=cmd, a0=arg0, a1=arg1))
  if data is not None:
    s += " and ghost('tx.data')[%s] == %s" % (k, data)
  return s


N0 = "old(ghost('tx.n'))"
KEEP = "forall_int(lambda j: implies(0 <= j and j < old(ghost('tx.n')), ghost('tx.cmd')[j] == old(ghost('tx.cmd'))[j]))"


def register(reg):
  reg.repo.module('openhtf.plugs.usb.adb_protocol')
  reg.shape('AdbStreamTransport', adb_connection='ref:AdbConnection', local_id='int', remote_id='val{none,int}', message_queue='ref:queue',
            closed_state='enum:AdbStreamTransport.ClosedState', _read_buffer='own:list[str]', _buffer_size='int', _expecting_okay='bool',
            _read_buffer_lock='ref:lock', _write_lock='ref:lock', _reader_lock='ref:lock', _message_received='ref:condition')
  reg.shape('AdbConnection', transport='ref:AdbTransportAdapter', maxdata='int', _stream_transport_map='own:dict[int,ref:AdbStreamTransport]',
            _stream_transport_map_lock='ref:rlock', _reader_lock='ref:lock', _open_lock='ref:lock', _last_id_used='int',
            systemtype='str', serial='str', banner='str')
  reg.shape('AdbStream', _destination='str', _transport='ref:AdbStreamTransport')
  reg.shape('queue', items='own:list[ref:AdbMessage]', head='int')
  meta = {
      'not_decided': ['everything quantified over thread schedules (no deadlock, no lost wake-up, blocked reads returning by their timeout): '
                      'AdbStreamTransport._read_messages_until_true is not under contract; AdbConnection.read_for_stream is verified for one '
                      'caller at a time (what a call does to the stream queue, the wire and the reader lock), not for interleavings of callers',
                      ],
      'bounded': [],
      'assumptions': ['transport.write_message / read_message follow their C13 contracts; every message written is appended to the ghost log tx.*',
                      'queue.Queue.put appends to the queue (ghost list items), get / get_nowait return items[head] and advance head, Empty iff '
                      'head == len(items) (sequential view of queue.Queue; the 10 ms blocking of get(True, .01) is not modelled); '
                      'AdbMessage.command is the inverse of the wire table',
                      'callers of transport.read_message see an abstraction of its C13 contract: a fresh message with a known command, 32-bit '
                      'arguments, intact payload',
                      'itertools.chain / islice over integer ranges and list(dict.keys()) are modelled as symbolic integer sequences / the key set '
                      '(trusted models of the standard library)',
                      'the device never sends READY (OKAY) with remote id 0 (protocol.txt); a PolledTimeout that has expired stays expired'],
  }
  reg.prop_meta['C14'] = meta
  reg.prop_meta['C15'] = meta

  # ---- tx log: hook on the (verified, C13) contract of write_message
  wm = [c for c in reg.contracts if c.name == 'AdbTransportAdapter.write_message'][0]

  def log_tx(ex, st, env, result):
    if 'tx.n' not in st.ghost:
      return
    n = st.ghost['tx.n'].t
    m = env['message']
    for f, g in (('_command', 'tx.cmd'), ('arg0', 'tx.arg0'), ('arg1', 'tx.arg1'), ('data', 'tx.data')):
      st.ghost[g] = VSeq(z3.Store(st.ghost[g].t, n, ex.read_field(st, m, f).t))
    st.ghost['tx.n'] = VInt(n + 1)
  wm.hooks['after_call'] = log_tx
  # the debugging subclass records each message and delegates: same effect on the wire
  c = reg.contract(A, 'DebugAdbTransportAdapter.write_message', props=())
  c.param('message', 'ref:AdbMessage').param('timeout', 'ref:PolledTimeout')
  c.raises('UsbWriteFailedError').raises('AdbTimeoutError')
  c.modifies()
  c.hooks['after_call'] = log_tx
  c.trusted('ADB_MESSAGE_LOG debugging adapter: appends the message to a list and calls the base implementation')

  def q_put(ex, st, args, kwargs):
    ex.ctx.use_trusted('queue.Queue.put')
    ex.list_append(st, ex.read_field(st, args[0], 'items'), args[1])
    return [(st, NONE)]
  reg.trusted_methods[('queue', 'put')] = q_put

  c = reg.contract(A, 'AdbMessage.command', props=())
  c.returns('str').modifies().function_of('self._command')
  c.requires('known_command', ' or '.join("self._command == wire_command('%s')" % n for n in NAMES))
  c.ensures('inverse_of_the_wire_table', 'wire_command(result) == self._command and (%s)' % ' or '.join("result == '%s'" % n for n in NAMES))
  # the same fact pointwise (the seven wire ids are distinct constants), so that no string reasoning is needed to move between the two forms
  c.ensures('inverse_of_the_wire_table_pointwise', ' and '.join("(self._command == wire_command('%s')) == (result == '%s')" % (n, n) for n in NAMES))
  c.trusted('WIRE_TO_CMD is the inverse of CMD_TO_WIRE (both built by make_wire_commands at import time)')

  for qual in ('AdbMessage.__str__', 'AdbStreamTransport.__str__', 'AdbStream.__str__'):
    c = reg.contract(A if qual.startswith('AdbMessage') else P, qual, props=())
    c.returns('str').modifies()
    c.trusted('text used in log / error messages only')

  register_stream_transport(reg)
  reg.replayers['AdbConnection.close_stream_transport'] = replay_close_stream_transport
  register_connection(reg)
  register_stream(reg)
  register_connect(reg)
  register_handshake(reg)
  register_reader(reg)
  register_ids(reg)


VALID_MSG = ("({k})".format(k=' or '.join("message._command == wire_command('%s')" % n for n in NAMES)) +
             ' and 0 <= message.arg0 and message.arg0 < 2**32 and 0 <= message.arg1 and message.arg1 < 2**32')
# protocol.txt: "READY(local-id, remote-id) ... the local-id may not be zero" - the sender's local id is our remote id.  Environment
# assumption on the device, stated at the one place packets enter (the caller view of read_message); without it a second
# READY(0) trips the `assert` in _set_or_check_remote_id (AssertionError, see DESIGN.md 12.8)
NONZERO_READY = "implies(message._command == wire_command('OKAY'), message.arg0 != 0)"
IDS = ('0 < self.local_id and self.local_id < 2**16 and (self.remote_id is None or (0 <= self.remote_id and self.remote_id < 2**32)) and '
       '0 <= self.adb_connection.maxdata and self.adb_connection.maxdata < 2**32')


# every message waiting in a stream's queue is an intact stream packet (what enqueue_message put there)
def queued_ok(q):
  m = '%s.items[j]' % q
  return ('forall_int(lambda j: implies({q}.head <= j and j < len({q}.items), ({cmds}) and 0 <= {m}.arg0 and {m}.arg0 < 2**32 and 0 <= {m}.arg1 and {m}.arg1 < 2**32 '
          'and implies({m}._command == wire_command(\'OKAY\'), {m}.arg0 != 0)))').format(
              q=q, m=m, cmds=' or '.join("%s._command == wire_command('%s')" % (m, n) for n in ('OKAY', 'CLSE', 'WRTE')))


WF_MAP = ('forall_key(lambda k: implies(k in {m}, {m}[k].local_id == k and {m}[k].adb_connection is self and 0 < k and k < 2**16 and '
          '({m}[k].remote_id is None or (0 <= {m}[k].remote_id and {m}[k].remote_id < 2**32)) and '
          'implies(not {m}[k].remote_id, {m}[k].closed_state is {cs}.PENDING)))').format(m='self._stream_transport_map', cs=CS)


# every registered stream has a well-formed queue holding intact stream packets
QUEUES_OK = ('forall_key(lambda k: implies(k in {m}, 0 <= {m}[k].message_queue.head and {m}[k].message_queue.head <= len({m}[k].message_queue.items) and {qok}))'
             .format(m='self._stream_transport_map', qok=queued_ok('self._stream_transport_map[k].message_queue')))


def register_stream_transport(reg):
  # ---------------------------------------------------------------- remote id: set once by the first OKAY, never changed
  c = reg.contract(P, 'AdbStreamTransport._set_or_check_remote_id', props=['C15', 'C14'])
  c.param('remote_id', 'int')
  c.requires('ids', IDS)
  c.requires('a_stream_without_remote_id_is_pending', 'implies(not self.remote_id, self.closed_state is %s.PENDING)' % CS)
  c.ensures('first_OKAY_opens_the_stream', 'implies(not old(self.remote_id), self.remote_id == remote_id and self.closed_state is %s.OPEN)' % CS)
  c.ensures('later_OKAYs_carry_the_same_remote_id', 'implies(bool(old(self.remote_id)), self.remote_id == old(self.remote_id) and remote_id == self.remote_id '
            'and self.closed_state is old(self.closed_state))')
  c.raises('AdbProtocolError', when='bool(old(self.remote_id)) and old(self.remote_id) != remote_id',
           ensures=[('nothing_changed', 'self.remote_id == old(self.remote_id) and self.closed_state is old(self.closed_state)')])
  c.modifies('self.remote_id', 'self.closed_state')

  # ---------------------------------------------------------------- what a message read for this stream does to it
  c = reg.contract(P, 'AdbStreamTransport._handle_message', props=['C15', 'C14'])
  c.param('message', 'ref:AdbMessage').param('handle_wrte', 'bool')
  c.requires('stream_message', "message.command == 'OKAY' or message.command == 'CLSE' or message.command == 'WRTE'")
  c.requires('valid_message', VALID_MSG).requires('ids', IDS)
  c.requires('a_stream_without_remote_id_is_pending', 'implies(not self.remote_id, self.closed_state is %s.PENDING)' % CS)
  c.requires('buffer_accounting', 'self._buffer_size >= 0')
  c.requires('a_READY_packet_names_a_non_zero_remote_id', NONZERO_READY)
  c.ensures('OKAY_acknowledges_the_outstanding_WRTE', "implies(message.command == 'OKAY', old(self._expecting_okay) and not self._expecting_okay)")
  c.ensures('CLSE_closes', "implies(message.command == 'CLSE', self.closed_state is %s.CLOSED)" % CS)
  c.ensures('the_first_OKAY_opens_the_stream_with_the_devices_id',
            "implies(message.command == 'OKAY' and not old(self.remote_id), self.remote_id == message.arg0 and self.closed_state is %s.OPEN)" % CS)
  c.ensures('nothing_but_an_OKAY_opens_a_stream', "implies(message.command != 'OKAY', self.closed_state is not %s.OPEN or old(self.closed_state is %s.OPEN))" % (CS, CS))
  c.ensures('ids_stay_well_formed', IDS + ' and implies(not self.remote_id, self.closed_state is %s.PENDING or self.closed_state is %s.CLOSED)' % (CS, CS))
  c.ensures('WRTE_data_is_buffered_exactly_once_in_order',
            "implies(message.command == 'WRTE', handle_wrte and len(self._read_buffer) == old(len(self._read_buffer)) + 1 and "
            "self._read_buffer[len(self._read_buffer) - 1] == message.data and self._buffer_size == old(self._buffer_size) + len(message.data) and "
            "forall_int(lambda j: implies(0 <= j and j < old(len(self._read_buffer)), self._read_buffer[j] == old(content(self._read_buffer))[j])))")
  c.ensures('only_WRTE_touches_the_buffer', "implies(message.command != 'WRTE', len(self._read_buffer) == old(len(self._read_buffer)) and self._buffer_size == old(self._buffer_size))")
  c.raises('AdbProtocolError',
           when="(message.command == 'OKAY' and ((bool(old(self.remote_id)) and old(self.remote_id) != message.arg0) or not old(self._expecting_okay))) or "
                "(message.command == 'WRTE' and not handle_wrte)")
  c.modifies('self.remote_id', 'self.closed_state', 'self._expecting_okay', 'list(self._read_buffer)', 'self._buffer_size')

  # ---------------------------------------------------------------- sending on a stream: ids of this stream, payload within maxdata
  c = reg.contract(P, 'AdbStreamTransport._send_command', props=['C14', 'C15'])
  tx(c)
  c.param('command', 'str').param('timeout', 'ref:PolledTimeout').param('data', 'str')
  c.requires('stream_command', "command == 'OKAY' or command == 'WRTE' or command == 'CLSE'")
  c.requires('ids', IDS)
  too_long = 'len(data) > self.adb_connection.maxdata'
  c.raises('AdbProtocolError', when='%s or not self.remote_id' % too_long, ensures=[('nothing_sent', "ghost('tx.n') == %s" % N0)])
  c.raises('UsbWriteFailedError').raises('AdbTimeoutError')
  c.ensures('one_message_with_this_streams_ids',
            "not (%s) and bool(self.remote_id) and ghost('tx.n') == %s + 1 and ghost('tx.cmd')[%s] == wire_command(command) and "
            "ghost('tx.arg0')[%s] == self.local_id and ghost('tx.arg1')[%s] == self.remote_id and ghost('tx.data')[%s] == data" % (too_long, N0, N0, N0, N0, N0))
  c.ensures('earlier_messages_kept', KEEP)
  c.modifies()

  # ---------------------------------------------------------------- a message routed to another stream's queue: WRTE acknowledged exactly once
  c = reg.contract(P, 'AdbStreamTransport.enqueue_message', props=['C14', 'C15'])
  tx(c)
  c.param('message', 'ref:AdbMessage').param('timeout', 'ref:PolledTimeout')
  c.requires('stream_message', "message.command == 'OKAY' or message.command == 'CLSE' or message.command == 'WRTE'")
  c.requires('valid_message', VALID_MSG).requires('ids', IDS)
  c.requires('a_stream_without_remote_id_is_pending', 'implies(not self.remote_id, self.closed_state is %s.PENDING)' % CS)
  c.requires('a_READY_packet_names_a_non_zero_remote_id', NONZERO_READY)
  c.ensures('queued_messages_stay_intact_stream_packets', 'implies(old(%s), %s)' % (queued_ok('self.message_queue'), queued_ok('self.message_queue')))
  q = 'self.message_queue.items'
  c.ensures('queued_exactly_once_at_the_end', 'len({q}) == old(len({q})) + 1 and {q}[len({q}) - 1] is message and '
            'forall_int(lambda j: implies(0 <= j and j < old(len({q})), same({q}[j], old(content({q}))[j])))'.format(q=q))
  c.ensures('a_WRTE_is_acknowledged_by_exactly_one_OKAY_with_this_streams_ids',
            "implies(message.command == 'WRTE', ghost('tx.n') == %s + 1 and %s)" % (N0, sent(N0, 'OKAY', 'self.local_id', 'self.remote_id')))
  c.ensures('nothing_else_is_sent', "implies(message.command != 'WRTE', ghost('tx.n') == %s)" % N0)
  c.ensures('ids_stay_well_formed', IDS + ' and implies(not self.remote_id, self.closed_state is %s.PENDING)' % CS)
  c.raises('AdbProtocolError', when="message.command == 'OKAY' or message.command == 'WRTE'", ensures=[('nothing_queued', 'len(%s) == old(len(%s))' % (q, q))])
  c.raises('UsbWriteFailedError').raises('AdbTimeoutError')
  c.modifies('self.remote_id', 'self.closed_state', 'list(%s)' % q)


def register_connection(reg):
  smap = 'self._stream_transport_map'
  # ---------------------------------------------------------------- closing: the id is released once, exactly one CLSE goes out
  c = reg.contract(P, 'AdbConnection.close_stream_transport', props=['C15', 'C14'])
  tx(c)
  c.param('stream_transport', 'ref:AdbStreamTransport').param('timeout', 'ref:PolledTimeout').returns('bool')
  c.requires('ids', IDS.replace('self.adb_connection.maxdata', 'self.maxdata').replace('self.', 'stream_transport.').replace('stream_transport.maxdata', 'self.maxdata'))
  was_open = 'old(stream_transport.local_id in %s)' % smap
  c.ensures('true_iff_the_id_was_still_registered', 'result == %s' % was_open)
  c.ensures('id_released', 'stream_transport.local_id not in %s' % smap)
  c.ensures('other_streams_stay_registered',
            'forall_key(lambda k: implies(k != stream_transport.local_id, (k in {m}) == old(k in {m}) and implies(k in {m}, {m}[k] is old(content({m}))[k])))'.format(m=smap))
  c.ensures('exactly_one_CLSE_with_this_streams_ids_when_it_was_open',
            "implies(%s and bool(stream_transport.remote_id), ghost('tx.n') == %s + 1 and %s)" % (was_open, N0, sent(N0, 'CLSE', 'stream_transport.local_id', 'stream_transport.remote_id')))
  c.ensures('no_CLSE_otherwise', "implies(not (%s and bool(stream_transport.remote_id)), ghost('tx.n') == %s)" % (was_open, N0))
  c.ensures('earlier_messages_kept', KEEP)
  c.raises('UsbWriteFailedError', ensures=[('id_released', 'stream_transport.local_id not in %s' % smap), ('nothing_logged', "ghost('tx.n') == %s" % N0)])
  c.raises('AdbTimeoutError', ensures=[('id_released', 'stream_transport.local_id not in %s' % smap), ('nothing_logged', "ghost('tx.n') == %s" % N0)])
  c.modifies('dict(%s)' % smap)

  c = reg.contract(P, 'AdbStreamTransport.close', props=['C15'])
  tx(c)
  c.param('timeout_ms', 'val{none,int,float}')
  c.requires('ids', IDS)
  m2 = 'self.adb_connection._stream_transport_map'
  c.ensures('closed', 'self.closed_state is %s.CLOSED' % CS)
  c.ensures('a_local_close_of_an_open_stream_sends_exactly_one_CLSE_and_releases_the_id',
            "implies(old(self.closed_state is not {cs}.CLOSED and self.local_id in {m} and bool(self.remote_id)), "
            "self.local_id not in {m} and ghost('tx.n') <= {n0} + 1 and implies(ghost('tx.n') == {n0} + 1, {sent}))".format(cs=CS, m=m2, n0=N0, sent=sent(N0, 'CLSE', 'self.local_id', 'self.remote_id')))
  c.ensures('closing_twice_sends_nothing', "implies(old(self.closed_state is %s.CLOSED), ghost('tx.n') == %s)" % (CS, N0))
  c.raises('UsbWriteFailedError')
  c.modifies('self.closed_state', 'dict(%s)' % m2)

  # ---------------------------------------------------------------- routing of an incoming message
  c = reg.contract(P, 'AdbConnection._handle_message_for_stream', props=['C14', 'C15'])
  tx(c)
  c.param('stream_transport', 'ref:AdbStreamTransport').param('message', 'ref:AdbMessage').param('timeout', 'ref:PolledTimeout')
  c.returns('opt:ref:AdbMessage')
  c.requires('valid_message', VALID_MSG)
  st_ids = lambda s: ('0 < {s}.local_id and {s}.local_id < 2**16 and ({s}.remote_id is None or (0 <= {s}.remote_id and {s}.remote_id < 2**32))').format(s=s)
  c.requires('ids', st_ids('stream_transport') + ' and 0 <= self.maxdata and self.maxdata < 2**32')
  c.requires('registered_streams_are_well_formed',
             'forall_key(lambda k: implies(k in {m}, {m}[k].local_id == k and {m}[k].adb_connection is self and 0 < k and k < 2**16 and '
             '({m}[k].remote_id is None or (0 <= {m}[k].remote_id and {m}[k].remote_id < 2**32)) and '
             'implies(not {m}[k].remote_id, {m}[k].closed_state is {cs}.PENDING)))'.format(m=smap, cs=CS))
  c.requires('this_stream_belongs_to_this_connection', 'stream_transport.adb_connection is self')
  c.requires('a_READY_packet_names_a_non_zero_remote_id', NONZERO_READY)
  c.requires('the_waiting_streams_queue', '0 <= stream_transport.message_queue.head and stream_transport.message_queue.head <= len(stream_transport.message_queue.items) and '
             + queued_ok('stream_transport.message_queue'))
  c.ensures('the_waiting_streams_queue_holds_intact_stream_packets', queued_ok('stream_transport.message_queue'))
  illegal = "not (message.command == 'OKAY' or message.command == 'CLSE' or message.command == 'WRTE')"
  mine = 'message.arg1 == stream_transport.local_id'
  c.raises('AdbProtocolError', when="(%s) or (%s and message.command == 'WRTE' and not stream_transport.remote_id) or "
           "(not (%s) and (message.command == 'OKAY' or message.command == 'WRTE'))" % (illegal, mine, mine))
  c.raises('UsbWriteFailedError').raises('AdbTimeoutError')
  c.ensures('only_stream_packets_are_legal_mid_session', 'not (%s)' % illegal)
  c.ensures('returned_iff_addressed_to_the_waiting_stream', '(result is message) == (%s) and (result is None) == (not (%s))' % (mine, mine))
  c.ensures('a_WRTE_for_the_waiting_stream_is_acknowledged_by_exactly_one_OKAY',
            "implies(%s and message.command == 'WRTE', ghost('tx.n') == %s + 1 and %s)" % (mine, N0, sent(N0, 'OKAY', 'stream_transport.local_id', 'stream_transport.remote_id')))
  other = '%s[message.arg1]' % smap
  c.ensures('a_message_for_another_open_stream_lands_in_that_streams_queue_only',
            "implies(not (%s) and old(message.arg1 in %s), len(old(%s).message_queue.items) == old(len(%s.message_queue.items)) + 1)" % (mine, smap, other, other))
  c.ensures('a_WRTE_for_another_stream_is_acknowledged_with_that_streams_ids',
            "implies(not (%s) and old(message.arg1 in %s) and message.command == 'WRTE', ghost('tx.n') == %s + 1 and %s)"
            % (mine, smap, N0, sent(N0, 'OKAY', 'old(%s).local_id' % other, 'old(%s).remote_id' % other)))
  c.ensures('a_message_for_an_unknown_id_is_dropped', "implies(not (%s) and not old(message.arg1 in %s), ghost('tx.n') == %s)" % (mine, smap, N0))
  c.ensures('the_waiting_stream_keeps_its_ids', st_ids('stream_transport'))
  c.ensures('registered_streams_stay_well_formed', WF_MAP)
  c.ensures('the_message_log_only_grows', "ghost('tx.n') >= %s" % N0)
  c.ensures('nothing_is_removed_from_the_waiting_streams_queue',
            'len(stream_transport.message_queue.items) >= old(len(stream_transport.message_queue.items)) and '
            'forall_int(lambda j: implies(0 <= j and j < old(len(stream_transport.message_queue.items)), '
            'same(stream_transport.message_queue.items[j], old(content(stream_transport.message_queue.items))[j])))')
  c.modifies('dict(%s)' % smap, 'AdbStreamTransport.remote_id', 'AdbStreamTransport.closed_state', 'list')


def register_stream(reg):
  # ---------------------------------------------------------------- one WRTE in flight; a write whose OKAY never came poisons the stream
  c = reg.contract(P, 'AdbStreamTransport._read_messages_until_true', props=())
  c.param('predicate', 'val').param('timeout', 'ref:PolledTimeout')
  c.raises('AdbTimeoutError', ensures=[('no_OKAY_was_handled', 'self._expecting_okay == old(self._expecting_okay)'), ('ids', IDS)])
  c.raises('AdbStreamClosedError').raises('AdbProtocolError').raises('UsbReadFailedError').raises('UsbWriteFailedError')
  c.requires('ids', IDS)
  c.ensures('the_awaited_OKAY_arrived', 'not self._expecting_okay')
  c.ensures('ids', IDS)
  c.modifies('self._expecting_okay', 'self.remote_id', 'self.closed_state', 'list(self._read_buffer)', 'self._buffer_size', 'dict(self.adb_connection._stream_transport_map)', 'list')
  c.trusted('reader hand-over between threads (condition variable, reader lock): concurrency, outside this technique; used here only for '
            '"returns normally once the predicate holds" with the predicate of write(): the OKAY was received')

  c = reg.contract(P, 'AdbStreamTransport.write', props=['C14'])
  tx(c)
  c.param('data', 'str').param('timeout', 'ref:PolledTimeout')
  c.requires('ids', IDS)
  refused = "not self.remote_id or self.closed_state is not %s.OPEN" % CS
  c.raises('AdbStreamClosedError', when="old(%s) or ghost('tx.n') > %s" % (refused, N0),
           ensures=[('a_closed_or_half_open_stream_sends_nothing', "implies(old(%s), ghost('tx.n') == %s)" % (refused, N0))])
  c.raises('AdbProtocolError', when="old(not (%s) and (self._expecting_okay or len(data) > self.adb_connection.maxdata)) or ghost('tx.n') > %s" % (refused, N0),
           ensures=[('never_a_second_WRTE_while_one_is_unacknowledged', "implies(old(self._expecting_okay), ghost('tx.n') == %s)" % N0)])
  c.raises('AdbTimeoutError', ensures=[('the_unacknowledged_WRTE_stays_recorded', 'self._expecting_okay')])
  c.raises('UsbWriteFailedError').raises('UsbReadFailedError')
  c.ensures('ids', IDS)
  c.ensures('one_WRTE_with_this_streams_ids_then_its_OKAY',
            "old(not self._expecting_okay) and not self._expecting_okay and ghost('tx.n') >= %s + 1 and %s" % (N0, sent(N0, 'WRTE', 'self.local_id', 'old(self.remote_id)', 'data')))
  c.modifies('self._expecting_okay', 'self.remote_id', 'self.closed_state', 'self._buffer_size', 'dict(self.adb_connection._stream_transport_map)', 'list')

  def log_chunk(ex, st, env, result):
    if 'w.n' not in st.ghost:
      return
    d = env['data']
    st.ghost['w.cat'] = VStr(z3.Concat(st.ghost['w.cat'].t, d.t))
    m = st.ghost['w.max'].t
    st.ghost['w.max'] = VInt(z3.If(z3.Length(d.t) > m, z3.Length(d.t), m))
    st.ghost['w.n'] = VInt(st.ghost['w.n'].t + 1)
  c.hooks['after_call'] = log_chunk

  # ---------------------------------------------------------------- host writes are split into chunks no larger than the device's maxdata
  c = reg.contract(P, 'AdbStream.write', props=['C14'])
  c.ghost('w.n', 'int').ghost('w.cat', 'str').ghost('w.max', 'int')
  c.param('data', 'str').param('timeout_ms', 'val{none,int,float}')
  c.requires('chunk_log', "ghost('w.n') >= 0 and ghost('w.max') >= 0")
  c.requires('device_limit', 'self._transport.adb_connection.maxdata > 0 and self._transport.adb_connection.maxdata < 2**32')
  c.requires('ids', IDS.replace('self.', 'self._transport.'))
  c.ensures('exactly_the_data_in_order', "ghost('w.cat') == old(ghost('w.cat')) + data")
  c.ensures('chunks_no_larger_than_maxdata', "ghost('w.max') <= max(old(ghost('w.max')), self._transport.adb_connection.maxdata)")
  for e in ('AdbStreamClosedError', 'AdbProtocolError', 'AdbTimeoutError', 'UsbWriteFailedError', 'UsbReadFailedError'):
    c.raises(e)
  c.modifies('AdbStreamTransport._expecting_okay', 'AdbStreamTransport.remote_id', 'AdbStreamTransport.closed_state', 'list', 'AdbStreamTransport._buffer_size', 'dict')
  c.loop('while data',
         inv=[('sent_so_far', "ghost('w.cat') + data == old(ghost('w.cat')) + old(data)"),
              ('chunks_no_larger_than_maxdata', "ghost('w.max') <= max(old(ghost('w.max')), self._transport.adb_connection.maxdata) and ghost('w.max') >= 0 and ghost('w.n') >= 0"),
              ('device_limit', 'self._transport.adb_connection.maxdata > 0 and self._transport.adb_connection.maxdata < 2**32'),
              ('ids', IDS.replace('self.', 'self._transport.'))],
         modifies=['AdbStreamTransport._expecting_okay', 'AdbStreamTransport.remote_id', 'AdbStreamTransport.closed_state', 'list', 'AdbStreamTransport._buffer_size', 'dict'],
         vars={'data': 'str'})


def register_connect(reg):
  c = reg.contract(P, 'AdbConnection.__init__', props=['C15', 'C14'], callsite=False)
  c.param('transport', 'ref:AdbTransportAdapter').param('maxdata', 'int').param('remote_banner', 'str')
  c.option(implicit_raises=('ValueError',))
  c.ensures('maxdata_is_what_the_device_announced', 'self.maxdata == maxdata')
  c.ensures('uses_the_given_transport', 'self.transport is transport')
  c.ensures('no_stream_yet', 'len(self._stream_transport_map) == 0 and self._last_id_used == 0')
  c.raises('AdbProtocolError')
  c.modifies('self.systemtype', 'self.serial', 'self.banner', 'self.transport', 'self.maxdata', 'self._last_id_used', 'self._reader_lock', 'self._open_lock',
             'self._stream_transport_map', 'self._stream_transport_map_lock')


def register_handshake(reg):
  from pyvc.values import VBool as _VB
  from pyvc.state import Obligation
  reg.global_overrides.setdefault('openhtf.plugs.usb.adb_protocol', {})['ADB_MESSAGE_LOG'] = lambda ex, st: _VB(False)
  from pyvc.opaque import pure_function
  small = lambda t: [z3.Length(t) < 2**31]
  _sign = pure_function('signer_sign', 'str', facts=small)

  def sign(ex, st, fn, pos, kwargs):
    # the challenge being signed is the last packet read_until handed out (ghost $challenge, set by its hook)
    if 'sg.n' in st.ghost and 'msg' in st.env:
      # the challenge being answered is the caller's current `msg` (the last packet read_until handed out)
      ex.ctx.obligations.append(Obligation('%s/order.only_TOKEN_challenges_are_signed' % ex.ctx.unit, 'order', list(st.pc),
                                           ex.read_field(st, st.env['msg'], 'arg0').t == 1, '',
                                           {'msg': 'a signature is produced for an AUTH packet that is not a TOKEN challenge'}))
      st.ghost['sg.key'] = VSeq(z3.Store(st.ghost['sg.key'].t, st.ghost['sg.n'].t, getattr(fn, 'owner', fn).t))
      st.ghost['sg.n'] = VInt(st.ghost['sg.n'].t + 1)
    return _sign(ex, st, fn, pos, kwargs)
  reg.opaque['signer.sign'] = sign
  reg.opaque['signer.get_public_key'] = pure_function('signer_get_public_key', 'str', nargs=0, facts=small)
  reg.private_exceptions.update(['DeviceAuthError', 'AdbProtocolError', 'AdbTimeoutError'])
  reg.trusted_methods[('*', 'with_traceback')] = lambda ex, st, a, k: [(st, a[0])]

  for c in reg.contracts:
    if c.name == 'AdbConnection.__init__':
      reg.by_func[(c.finfo.module.name, c.finfo.qualname)] = c

  c = reg.contract('openhtf/plugs/usb/usb_exceptions.py', 'LibusbWrappingError.is_timeout', props=())
  c.returns('bool').modifies()
  c.trusted('compares the wrapped libusb error code with LIBUSB_ERROR_TIMEOUT')

  c = reg.contract(A, 'AdbTransportAdapter.read_until', props=())
  c.param('expected_commands', 'val').param('timeout', 'ref:PolledTimeout').returns('ref:AdbMessage')
  c.ghost('rx.cursor', 'int').ghost('rx.cmd', 'seq[int]', const=True).ghost('rx.arg0', 'seq[int]', const=True)
  c.ghost('rx.arg1', 'seq[int]', const=True).ghost('rx.data', 'seq[str]', const=True)
  k = "(ghost('rx.cursor') - 1)"
  c.ensures('the_next_expected_packet_of_the_device_script',
            "ghost('rx.cursor') > old(ghost('rx.cursor')) and is_fresh(result) and result._command == ghost('rx.cmd')[{k}] and result.arg0 == ghost('rx.arg0')[{k}] and "
            "result.arg1 == ghost('rx.arg1')[{k}] and result.data == ghost('rx.data')[{k}]".format(k=k))
  c.ensures('a_known_command', ' or '.join("result._command == wire_command('%s')" % n for n in NAMES))
  c.ensures('a_well_formed_packet', '0 <= result.arg0 and result.arg0 < 2**32 and 0 <= result.arg1 and result.arg1 < 2**32 and len(result.data) < 2**31')
  c.ensures('one_of_the_expected_commands', 'result.command in expected_commands')
  c.raises('AdbTimeoutError').raises('UsbReadFailedError').raises('AdbProtocolError').raises('AdbDataIntegrityError')
  c.modifies()
  c.trusted('loop_until_timeout_or_valid over read_message: skips packets whose command is not expected (ADB: packets before CNXN are ignored)')

  # ---------------------------------------------------------------- connect
  c = reg.contract(P, 'AdbConnection.connect', props=['C15'])
  tx(c)
  c.ghost('rx.cursor', 'int').ghost('rx.cmd', 'seq[int]', const=True).ghost('rx.arg0', 'seq[int]', const=True)
  c.ghost('rx.arg1', 'seq[int]', const=True).ghost('rx.data', 'seq[str]', const=True)
  c.ghost('sg.n', 'int').ghost('sg.key', 'seq[int]')
  c.param('transport', 'ref:transport').param('rsa_keys', 'opt:list[fn:signer]').param('timeout_ms', 'val{none,int,float}').param('auth_timeout_ms', 'val{none,int,float}')
  c.returns('ref:AdbConnection')
  c.requires('script_cursor', "ghost('rx.cursor') >= 0 and ghost('sg.n') >= 0")
  last = "(ghost('rx.cursor') - 1)"
  r0 = "old(ghost('rx.cursor'))"
  s0 = "old(ghost('sg.n'))"
  c.ensures('opens_with_CNXN', "ghost('tx.n') >= %s + 1 and ghost('tx.cmd')[%s] == wire_command('CNXN')" % (N0, N0))
  c.ensures('a_connection_only_after_the_devices_CNXN',
            "ghost('rx.cursor') > {r0} and ghost('rx.cmd')[{k}] == wire_command('CNXN') and result.maxdata == ghost('rx.arg1')[{k}]".format(r0=r0, k=last))
  c.ensures('keys_are_tried_in_order_each_at_most_once',
            "ghost('sg.n') - {s0} >= 0 and implies(rsa_keys is not None, ghost('sg.n') - {s0} <= len(rsa_keys) and "
            "forall_int(lambda j: implies(0 <= j and j < ghost('sg.n') - {s0}, ghost('sg.key')[{s0} + j] == callable_id(rsa_keys[j])))) and "
            "implies(rsa_keys is None, ghost('sg.n') == {s0})".format(s0=s0))
  c.ensures('one_message_per_signature_plus_at_most_one_public_key',
            "ghost('tx.n') - {n0} - 1 >= ghost('sg.n') - {s0} and ghost('tx.n') - {n0} - 1 <= ghost('sg.n') - {s0} + 1".format(n0=N0, s0=s0))
  c.raises('DeviceAuthError').raises('AdbProtocolError').raises('AdbTimeoutError').raises('UsbReadFailedError').raises('UsbWriteFailedError')
  c.raises('AdbDataIntegrityError')
  c.modifies()
  c.loop('for rsa_key in rsa_keys',
         inv=[('one_signature_per_key_so_far', "ghost('tx.n') == %s + 1 + _i and ghost('sg.n') == %s + _i" % (N0, s0)),
              ('opened_with_CNXN', "ghost('tx.cmd')[%s] == wire_command('CNXN') and ghost('rx.cursor') > %s" % (N0, r0)),
              ('keys_in_order', "forall_int(lambda j: implies(0 <= j and j < _i, ghost('sg.key')[%s + j] == callable_id(rsa_keys[j])))" % s0),
              ('still_challenged', "msg._command == wire_command('AUTH') and msg._command == ghost('rx.cmd')[ghost('rx.cursor') - 1] and "
               "msg.arg0 == ghost('rx.arg0')[ghost('rx.cursor') - 1] and msg.arg1 == ghost('rx.arg1')[ghost('rx.cursor') - 1] and "
               "msg.data == ghost('rx.data')[ghost('rx.cursor') - 1] and len(msg.data) < 2**31")],
         modifies=[], vars={'msg': 'ref:AdbMessage'})


def register_reader(reg):
  """AdbConnection.read_for_stream: the sequential rules of the reader hand-over (what one call may do to the stream's queue,
  to the wire and to the reader lock).  The queue is the ghost pair (items, head): put appends to items, get returns items[head]
  and advances head, Empty iff head == len(items)."""
  from pyvc.state import Obligation

  def q_get(ex, st, args, kwargs):
    ex.ctx.use_trusted('queue.Queue.get')
    q = args[0]
    items = ex.read_field(st, q, 'items')
    head = ex.read_field(st, q, 'head')
    n = ex.list_len(st, items)
    out = []
    got = st.fork()
    got.assume(head.t < n)
    v = ex.list_get(got, items, head.t)
    ex.write_field(got, q, 'head', VInt(head.t + 1))
    out.append((got, v))
    st.assume(head.t >= n)
    out.append((st, ex.raise_builtin(st, 'queue.Empty', '')))
    return out
  reg.trusted_methods[('queue', 'get')] = q_get
  reg.trusted_methods[('queue', 'get_nowait')] = q_get

  # caller-facing view of transport.read_message: an abstraction of its (verified, C13) contract - a fresh, intact message
  rm = [c for c in reg.contracts if c.name == 'AdbTransportAdapter.read_message'][0]
  for qual in ('AdbTransportAdapter.read_message', 'DebugAdbTransportAdapter.read_message'):
    c = reg.contract(A, qual, props=(), name=qual + '[caller view]')
    c.param('timeout', 'ref:PolledTimeout').returns('ref:AdbMessage')
    c.ensures('a_fresh_intact_message', 'is_fresh(result) and ' + VALID_MSG.replace('message.', 'result.') + ' and len(result.data) < 2**31')
    c.ensures('a_READY_packet_names_a_non_zero_remote_id', NONZERO_READY.replace('message.', 'result.'))
    c.raises('UsbReadFailedError').raises('AdbProtocolError').raises('AdbDataIntegrityError').raises('AdbTimeoutError')
    c.modifies()
    c.trusted('abstraction of the C13 contract of read_message (verified there): the message has a known command, 32-bit arguments and an intact '
              'payload; the device script is not exposed to callers')

    def under_reader_lock(ex, st, env, result):
      if '$need_reader_lock' in st.ghost:
        held = any('_reader_lock' in l for l in st.locks)
        ex.ctx.obligations.append(Obligation('%s/lock.wire_frames_are_read_only_by_the_holder_of_the_reader_lock' % ex.ctx.unit, 'lock', list(st.pc),
                                             z3.BoolVal(held), '', {'msg': 'transport.read_message called without AdbConnection._reader_lock'}))
    c.hooks['after_call'] = under_reader_lock

  smap = 'self._stream_transport_map'
  q = 'stream_transport.message_queue'
  c = reg.contract(P, 'AdbConnection.read_for_stream', props=['C14'])
  tx(c)
  c.ghost('$need_reader_lock', 'int')
  c.param('stream_transport', 'ref:AdbStreamTransport').param('timeout_ms', 'val{none,int,float}').returns('ref:AdbMessage')
  st_ids = ('0 < {s}.local_id and {s}.local_id < 2**16 and ({s}.remote_id is None or (0 <= {s}.remote_id and {s}.remote_id < 2**32))').format(s='stream_transport')
  ids = st_ids + ' and 0 <= self.maxdata and self.maxdata < 2**32'
  qwf = '0 <= {q}.head and {q}.head <= len({q}.items)'.format(q=q)
  belongs = 'stream_transport.adb_connection is self'
  c.requires('ids', ids).requires('queue', qwf).requires('registered_streams_are_well_formed', WF_MAP).requires('this_stream_belongs_to_this_connection', belongs)
  c.requires('queued_messages_are_intact_stream_packets', queued_ok(q))
  c.ensures('queued_messages_are_intact_stream_packets', queued_ok(q))
  c.ensures('registered_streams_stay_well_formed', WF_MAP).ensures('ids', ids)
  c.ensures('the_result_is_an_intact_stream_packet',
            "(result._command == wire_command('OKAY') or result._command == wire_command('CLSE') or result._command == wire_command('WRTE')) and "
            "0 <= result.arg0 and result.arg0 < 2**32 and "
            "0 <= result.arg1 and result.arg1 < 2**32 and " + NONZERO_READY.replace('message.', 'result.'))
  nonempty0 = 'old({q}.head < len({q}.items))'.format(q=q)
  c.ensures('queued_messages_are_delivered_first_and_in_order',
            'implies({ne}, result is old(content({q}.items))[old({q}.head)] and {q}.head == old({q}.head) + 1)'.format(ne=nonempty0, q=q))
  c.ensures('at_most_one_message_is_taken_from_the_queue', '{q}.head == old({q}.head) or {q}.head == old({q}.head) + 1'.format(q=q))
  c.ensures('a_message_not_taken_from_the_queue_was_read_for_this_stream',
            "implies({q}.head == old({q}.head), result.arg1 == stream_transport.local_id and "
            "(result.command == 'OKAY' or result.command == 'CLSE' or result.command == 'WRTE'))".format(q=q))
  c.ensures('queue', qwf)
  c.raises('AdbStreamClosedError', when='stream_transport.local_id not in %s' % smap,
           ensures=[('a_closed_stream_still_delivers_what_was_queued_for_it', '{q}.head == len({q}.items)'.format(q=q)),
                    ('nothing_taken', '{q}.head == old({q}.head)'.format(q=q))])
  c.raises('AdbTimeoutError', ensures=[('nothing_taken_from_the_queue', '{q}.head == old({q}.head)'.format(q=q))])
  c.raises('AdbProtocolError', ensures=[('nothing_taken_from_the_queue', '{q}.head == old({q}.head)'.format(q=q))])
  c.raises('UsbReadFailedError').raises('UsbWriteFailedError').raises('AdbDataIntegrityError')
  mods = ['dict(%s)' % smap, 'AdbStreamTransport.remote_id', 'AdbStreamTransport.closed_state', 'list', 'queue.head']
  c.modifies(*mods)
  inv = [('ids', ids), ('queue', qwf), ('registered_streams_are_well_formed', WF_MAP), ('this_stream_belongs_to_this_connection', belongs),
         ('nothing_taken_so_far', '{q}.head == old({q}.head)'.format(q=q)),
         ('what_was_queued_stays_queued', 'len({q}.items) >= old(len({q}.items)) and forall_int(lambda j: implies(0 <= j and j < old(len({q}.items)), '
          'same({q}.items[j], old(content({q}.items))[j])))'.format(q=q)),
         ('message_log', "ghost('tx.n') >= 0"), ('queued_messages_are_intact_stream_packets', queued_ok(q))]
  c.loop('while not timeout.has_expired() and stream_transport.local_id in self._stream_transport_map', inv=inv, modifies=mods,
         vars={'timeout': 'ref:PolledTimeout'})
  c.loop('while not timeout.has_expired()', inv=inv, modifies=mods,
         vars={'timeout': 'ref:PolledTimeout'})


def register_ids(reg):
  """Local id allocation: AdbConnection._make_stream_transport and the constructor of the stream transport."""
  from pyvc.values import VBuiltin
  from pyvc.engine3 import VIterView

  def chain(ex, st, args, kwargs):
    ex.ctx.use_trusted('itertools.chain')
    if not all(isinstance(a, VIterView) and a.how == 'intseq' for a in args) or len(args) != 2:
      from pyvc.values import Unsupported
      raise Unsupported('itertools.chain over anything but two integer ranges')
    (n1, f1), (n2, f2) = args[0].extra, args[1].extra
    return [(st, VIterView('intseq', None, (n1 + n2, lambda i: z3.If(i < n1, f1(i), f2(i - n1)))))]

  def islice(ex, st, args, kwargs):
    ex.ctx.use_trusted('itertools.islice')
    if not (isinstance(args[0], VIterView) and args[0].how == 'intseq') or len(args) != 2:
      from pyvc.values import Unsupported
      raise Unsupported('itertools.islice(seq, n) over anything but an integer sequence')
    n, f = args[0].extra
    k = args[1].t
    return [(st, VIterView('intseq', None, (z3.If(n < k, n, k), f)))]
  reg.externals['itertools.chain'] = lambda ex: VBuiltin('itertools.chain', chain)
  reg.externals['itertools.islice'] = lambda ex: VBuiltin('itertools.islice', islice)

  def mk(name, cls, init=None):
    def impl(ex, st, args, kwargs):
      ex.ctx.use_trusted(name)
      o = ex.alloc(st, cls)
      if init:
        init(ex, st, o)
      return [(st, o)]
    reg.externals[name] = lambda ex: VBuiltin(name, impl)
  mk('threading.Condition', 'condition')
  mk('queue.Queue', 'queue', lambda ex, st, o: (ex.write_field(st, o, 'items', ex.new_list(st, [])), ex.write_field(st, o, 'head', VInt(0))))
  reg.externals['collections.deque'] = lambda ex: VBuiltin('collections.deque', lambda ex_, st, a, k: [(st, ex_.new_list(st, []))])

  c = reg.contract(P, 'AdbStreamTransport.__init__', props=['C15'], callsite=False)
  c.param('adb_connection', 'ref:AdbConnection').param('local_id', 'int').param('message_queue', 'ref:queue')
  c.ensures('a_new_stream_is_pending_without_a_remote_id',
            'self.remote_id is None and self.closed_state is %s.PENDING and self.local_id == local_id and self.adb_connection is adb_connection and '
            'self.message_queue is message_queue and self._buffer_size == 0 and len(self._read_buffer) == 0' % CS)
  c.modifies('self.adb_connection', 'self.local_id', 'self.message_queue', 'self.remote_id', 'self.closed_state', 'self._read_buffer', 'self._buffer_size',
             'self._read_buffer_lock', 'self._write_lock', 'self._expecting_okay', 'self._message_received', 'self._reader_lock')

  smap = 'self._stream_transport_map'
  c = reg.contract(P, 'AdbConnection._make_stream_transport', props=['C15'])
  c.returns('ref:AdbStreamTransport')
  c.requires('last_id_in_range', '0 <= self._last_id_used and self._last_id_used < 2**16')
  c.ensures('a_non_zero_id_below_the_limit', '0 < result.local_id and result.local_id < 2**16')
  c.ensures('distinct_from_every_open_stream', 'result.local_id not in old(content(%s))' % smap)
  c.ensures('registered_under_its_id', 'result.local_id in {m} and {m}[result.local_id] is result and is_fresh(result)'.format(m=smap))
  c.ensures('other_streams_stay_registered',
            'forall_key(lambda k: implies(k != result.local_id, (k in {m}) == old(k in {m}) and implies(k in {m}, {m}[k] is old(content({m}))[k])))'.format(m=smap))
  c.ensures('a_new_stream_is_pending_without_a_remote_id', 'result.remote_id is None and result.closed_state is %s.PENDING and result.adb_connection is self' % CS)
  c.ensures('an_empty_queue_of_its_own', 'is_fresh(result.message_queue) and result.message_queue.head == 0 and len(result.message_queue.items) == 0')
  c.ensures('remembers_the_last_id', 'self._last_id_used == result.local_id')
  c.raises('AdbStreamUnavailableError', ensures=[('nothing_registered', 'forall_key(lambda k: (k in {m}) == old(k in {m}))'.format(m=smap))])
  c.modifies('dict(%s)' % smap, 'self._last_id_used')
  c.loop('for local_id in itertools.islice(itertools.chain(range(self._last_id_used, STREAM_ID_LIMIT), range(1, self._last_id_used)), 64)',
         inv=[('probing_starts_at_a_non_zero_id_within_the_limit', '1 <= self._last_id_used and self._last_id_used <= 2**16'),
              ('nothing_registered_yet', 'forall_key(lambda k: (k in {m}) == old(k in {m}) and implies(k in {m}, {m}[k] is old(content({m}))[k]))'.format(m=smap))],
         modifies=[], vars={})


def replay_close_stream_transport(model, ob):
  """close_stream_transport on concrete maps: exactly one CLSE with the stream's ids iff the id was registered and the
  stream has a remote id; the id is released."""
  import sys, types, threading
  from contracts.c16 import _import_fastboot
  _import_fastboot()           # installs the libusb1 / package stubs
  import importlib
  ap = importlib.import_module('openhtf.plugs.usb.adb_protocol')
  CS_ = ap.AdbStreamTransport.ClosedState
  out = {'scenarios': []}
  bad = False
  for registered in (True, False):
    for remote in (None, 9):
      for state in (CS_.OPEN, CS_.CLOSED, CS_.PENDING):
        sent = []
        tr = types.SimpleNamespace(write_message=lambda m, t: sent.append((m.command, m.arg0, m.arg1)))
        stream = types.SimpleNamespace(local_id=3, remote_id=remote, closed_state=state,
                                       is_open=lambda: state is CS_.OPEN, is_closed=lambda: state is CS_.CLOSED)
        me = types.SimpleNamespace(_stream_transport_map={3: stream} if registered else {}, _stream_transport_map_lock=threading.RLock(), transport=tr)
        me._stream_transport_map[5] = 'other'
        r = ap.AdbConnection.close_stream_transport(me, stream, None)
        want = [('CLSE', 3, 9)] if (registered and remote) else []
        ok = (r == registered) and sent == want and 3 not in me._stream_transport_map and me._stream_transport_map.get(5) == 'other'
        if not ok:
          bad = True
          out['scenarios'].append({'id registered': registered, 'remote id': remote, 'state': state.name, 'returned': r, 'messages sent': sent, 'prescribed': want})
  out['reproduced'] = bad
  return out
