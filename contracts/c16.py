"""C16 - fastboot: command / response state machine and exact image transfer.

Ghost model of the USB handle (trusted, contracts/c16.py:usb model): usb.read(n, timeout_ms) returns the next packet of the
ghost device script (seq[str] + cursor) or raises UsbReadFailedError; usb.write(s) appends s to the ghost wire (count
`wire.n`, packets `wire`, concatenation `wire.cat`, largest packet `wire.max`) or raises UsbWriteFailedError.  info_cb and
progress_callback are opaque user callables whose calls are appended to ghost logs (`cb.*`, `pg.*`)."""
import z3

from pyvc.values import Val, VRef, VInt, VStr, VBool, NONE, VVal, VSeq, Raised, fresh, parse_kind

F = 'openhtf/plugs/usb/fastboot_protocol.py'


def register(reg):
  reg.repo.module('openhtf.plugs.usb.usb_exceptions')
  reg.repo.module('openhtf.plugs.usb.fastboot_protocol')
  reg.shape('FastbootProtocol', usb='ref:usb')
  reg.shape('FastbootCommands', _usb='ref:usb', _protocol='ref:FastbootProtocol')
  reg.shape('FastbootMessage', message='str', header='str')
  reg.closed('FastbootMessage')
  reg.private('FastbootProtocol', 'usb')
  reg.private('FastbootCommands', '_usb', '_protocol')
  reg.private_exceptions.update(['FastbootStateMismatchError', 'FastbootRemoteFailureError', 'FastbootInvalidResponseError',
                                 'FastbootTransferError', 'UsbReadFailedError', 'UsbWriteFailedError'])
  reg.prop_meta['C16'] = {
      'not_decided': ['termination of _write when the source holds fewer characters than announced (partial correctness only: '
                      'the contract requires the announced length to be the number of characters left in the source)'],
      'bounded': [],
      'assumptions': ['usb.read / usb.write follow the ghost device-script / wire model in contracts/c16.py',
                      'a source file object behaves like io.StringIO: read(n) returns exactly min(n, remaining) characters, read() all of them',
                      'FASTBOOT_DOWNLOAD_CHUNK_SIZE_KB is a positive integer (it is settable from the command line)',
                      'binascii.unhexlify / struct.unpack(">I") on 8 hex digits = the big-endian value (hex32 uninterpreted, with '
                      'hex32("%08x" % n) == n for 0 <= n < 2**32)',
                      'info_cb / progress_callback are opaque: they may raise any exception that is not one of the protocol errors, '
                      'and cannot touch the USB handle'],
  }
  tm = reg.trusted_methods

  # ------------------------------------------------------------------ usb handle
  def u_read(ex, st, args, kwargs):
    ex.ctx.use_trusted('usb.read')
    ok = st.fork()
    script, cur = ok.ghost.get('script'), ok.ghost.get('cursor')
    if script is None:
      val = VStr(fresh('rx', z3.StringSort()))
    else:
      val = VStr(z3.Select(script.t, cur.t))
      ok.ghost['cursor'] = VInt(cur.t + 1)
    bad = st
    exc = ex.alloc(bad, ex.class_by_name('UsbReadFailedError'))
    return [(ok, val), (bad, Raised(exc))]

  def u_write(ex, st, args, kwargs):
    ex.ctx.use_trusted('usb.write')
    ok = st.fork()
    data = args[1]
    if 'wire.n' in ok.ghost:
      if not isinstance(data, VStr):
        raise ex.unsupported('usb.write of a non-str value') if hasattr(ex, 'unsupported') else Exception('usb.write of %r' % (data,))
      n = ok.ghost['wire.n'].t
      ok.ghost['wire'] = VSeq(z3.Store(ok.ghost['wire'].t, n, data.t))
      ok.ghost['wire.n'] = VInt(n + 1)
      ok.ghost['wire.cat'] = VStr(z3.Concat(ok.ghost['wire.cat'].t, data.t))
      m = ok.ghost['wire.max'].t
      ok.ghost['wire.max'] = VInt(z3.If(z3.Length(data.t) > m, z3.Length(data.t), m))
    bad = st
    exc = ex.alloc(bad, ex.class_by_name('UsbWriteFailedError'))
    return [(ok, NONE), (bad, Raised(exc))]
  tm[('usb', 'read')] = u_read
  tm[('usb', 'write')] = u_write
  tm[('usb', 'close')] = lambda ex, st, a, k: [(st, NONE)]

  # ------------------------------------------------------------------ StringIO-like source (content, pos)
  reg.shape('stringio', content='str', pos='int')
  reg.invariant_pseudo = getattr(reg, 'invariant_pseudo', {})

  def sio_read(ex, st, args, kwargs):
    ex.ctx.use_trusted('file.read(n)')
    f = args[0]
    content = ex.read_field(st, f, 'content').t
    pos = ex.read_field(st, f, 'pos').t
    if len(args) > 1:
      n = args[1].t
      out = z3.SubString(content, pos, z3.If(n < 0, z3.Length(content), n))
    else:
      out = z3.SubString(content, pos, z3.Length(content))
    ex.write_field(st, f, 'pos', VInt(pos + z3.Length(out)))
    return [(st, VStr(out))]
  tm[('stringio', 'read')] = sio_read

  def sio_new(ex):
    from pyvc.values import VBuiltin

    def impl(ex, st, args, kwargs):
      ex.ctx.use_trusted('io.StringIO')
      o = ex.alloc(st, 'stringio')
      ex.write_field(st, o, 'content', args[0] if args else VStr(z3.StringVal('')))
      ex.write_field(st, o, 'pos', VInt(z3.IntVal(0)))
      return [(st, o)]
    return VBuiltin('io.StringIO', impl)
  reg.externals['io.StringIO'] = sio_new

  # chunk size: a positive integer
  def chunk(ex, st):
    t = z3.Int('FASTBOOT_DOWNLOAD_CHUNK_SIZE_KB')
    st.axiom(t >= 1)
    return VInt(t)
  reg.global_overrides.setdefault('openhtf.plugs.usb.fastboot_protocol', {})['FASTBOOT_DOWNLOAD_CHUNK_SIZE_KB'] = chunk

  # ------------------------------------------------------------------ opaque callbacks with ghost call logs
  def info_cb(ex, st, fn, pos, kwargs):
    msg = pos[0]
    ex.ctx.use_trusted('opaque:info_cb')
    if 'cb.n' in st.ghost:
      n = st.ghost['cb.n'].t
      st.ghost['cb.msg'] = VSeq(z3.Store(st.ghost['cb.msg'].t, n, ex.read_field(st, msg, 'message').t))
      st.ghost['cb.hdr'] = VSeq(z3.Store(st.ghost['cb.hdr'].t, n, ex.read_field(st, msg, 'header').t))
      st.ghost['cb.n'] = VInt(n + 1)
    bad = st.fork()
    exc = ex.make_exception(bad, 'Exception', exact=False)
    return [(st, NONE), (bad, Raised(exc))]
  reg.opaque['info_cb'] = info_cb

  def progress_cb(ex, st, fn, pos, kwargs):
    ex.ctx.use_trusted('opaque:progress_callback')
    if 'pg.n' in st.ghost:
      n = st.ghost['pg.n'].t
      st.ghost['pg.cur'] = VSeq(z3.Store(st.ghost['pg.cur'].t, n, pos[0].t))
      st.ghost['pg.tot'] = VSeq(z3.Store(st.ghost['pg.tot'].t, n, pos[1].t))
      st.ghost['pg.n'] = VInt(n + 1)
    bad = st.fork()
    exc = ex.make_exception(bad, 'Exception', exact=False)
    return [(st, NONE), (bad, Raised(exc))]
  reg.opaque['progress_callback'] = progress_cb

  register_protocol(reg)
  reg.replayers['FastbootProtocol._accept_responses'] = replay_accept
  reg.replayers['FastbootProtocol.handle_data_sending'] = replay_data_sending
  reg.replayers['FastbootProtocol._handle_progress'] = replay_progress


NOBS = 6


def wire(c, script=True, cb=True, writes=True):
  if script:
    for i in range(NOBS):
      c.observe('script+%d' % i, "ghost('script')[ghost('cursor') + %d]" % i)
  for g, k in (('wire', 'seq[str]'), ('wire.n', 'int'), ('wire.cat', 'str'), ('wire.max', 'int')):
    c.ghost(g, k, const=not writes)
  c.requires('wire_log', "ghost('wire.n') >= 0 and ghost('wire.max') >= 0")
  if script:
    c.ghost('script', 'seq[str]', const=True).ghost('cursor', 'int')
    c.requires('device_script', "ghost('cursor') >= 0")
  if cb:
    c.ghost('cb.n', 'int').ghost('cb.msg', 'seq[str]').ghost('cb.hdr', 'seq[str]')
    c.requires('callback_log', "ghost('cb.n') >= 0")


S = "ghost('script')"
C0 = "old(ghost('cursor'))"
CB0 = "old(ghost('cb.n'))"


def register_protocol(reg):
  # ---------------------------------------------------------------- response loop
  c = reg.contract(F, 'FastbootProtocol._accept_responses', props=['C16'])
  wire(c, writes=False)
  c.param('expected_header', 'str').param('info_cb', 'fn:info_cb').param('timeout_ms', 'val{none,int,float}')
  c.returns('str')
  c.requires('waits_for_OKAY_or_DATA', "expected_header == 'OKAY' or expected_header == 'DATA'")
  last = "%s[ghost('cursor') - 1]" % S
  infos = ("forall_int(lambda j: implies({c0} <= j and j < {end}, {s}[j][:4] == 'INFO' and "
           "ghost('cb.msg')[{cb0} + (j - {c0})] == {s}[j][4:] and ghost('cb.hdr')[{cb0} + (j - {c0})] == 'INFO'))")
  consumed = "ghost('cursor') > %s" % C0
  before_last = infos.format(c0=C0, end="ghost('cursor') - 1", s=S, cb0=CB0)
  n_info = "(ghost('cursor') - 1 - %s)" % C0
  c.ensures('terminated_by_the_expected_packet', "%s and %s[:4] == expected_header and result == %s[4:]" % (consumed, last, last))
  c.ensures('INFO_packets_forwarded_in_order', before_last)
  c.ensures('OKAY_payload_also_forwarded',
            "ghost('cb.n') == {cb0} + {n} + (1 if expected_header == 'OKAY' else 0) and "
            "implies(expected_header == 'OKAY', ghost('cb.msg')[ghost('cb.n') - 1] == result and ghost('cb.hdr')[ghost('cb.n') - 1] == 'OKAY')"
            .format(cb0=CB0, n=n_info))
  c.ensures('nothing_written', "ghost('wire.n') == old(ghost('wire.n'))")
  c.raises('FastbootStateMismatchError', when="%s and (%s[:4] == 'OKAY' or %s[:4] == 'DATA') and %s[:4] != expected_header" % (consumed, last, last, last),
           ensures=[('INFO_packets_forwarded_in_order', before_last), ('no_callback_for_the_stray_packet', "ghost('cb.n') == %s + %s" % (CB0, n_info))])
  c.raises('FastbootRemoteFailureError', when="%s and %s[:4] == 'FAIL'" % (consumed, last),
           ensures=[('INFO_packets_forwarded_in_order', before_last),
                    ('device_text_reaches_the_callback', "ghost('cb.n') == %s + %s + 1 and ghost('cb.msg')[ghost('cb.n') - 1] == %s[4:] and "
                     "ghost('cb.hdr')[ghost('cb.n') - 1] == 'FAIL'" % (CB0, n_info, last)),
                    ('error_carries_the_device_text', "exc.args[0] == 'FAIL: ' + %s[4:]" % last)])
  c.raises('FastbootInvalidResponseError',
           when="{c} and {l}[:4] != 'INFO' and {l}[:4] != 'OKAY' and {l}[:4] != 'DATA' and {l}[:4] != 'FAIL'".format(c=consumed, l=last),
           ensures=[('INFO_packets_forwarded_in_order', before_last)])
  c.raises('UsbReadFailedError', ensures=[('only_INFO_consumed', infos.format(c0=C0, end="ghost('cursor')", s=S, cb0=CB0))])
  c.raises('Exception')        # the callback's own failure
  c.modifies()
  c.loop('while True',
         inv=[('cursor_advances', "ghost('cursor') >= %s" % C0),
              ('one_callback_per_INFO', "ghost('cb.n') == %s + (ghost('cursor') - %s)" % (CB0, C0)),
              ('only_INFO_so_far', infos.format(c0=C0, end="ghost('cursor')", s=S, cb0=CB0)),
              ('nothing_written', "ghost('wire.n') == old(ghost('wire.n'))")],
         modifies=[])

  # ---------------------------------------------------------------- progress reporting: a coroutine driven by _write
  g = reg.contract(F, 'FastbootProtocol._handle_progress', props=['C16'])
  g.param('total', 'int').param('progress_callback', 'fn:progress_callback')
  g.ghost('pg.n', 'int').ghost('pg.cur', 'seq[int]').ghost('pg.tot', 'seq[int]')
  g.requires('report_log', "ghost('pg.n') >= 0")
  g.modifies()
  g.coroutine(state={'current': 'int'}, send='int',
              init=[('starts_at_zero', 'current == 0'), ('nothing_reported_yet', "ghost('pg.n') == old(ghost('pg.n'))")],
              step=[('cumulative', 'current == old(current) + sent'),
                    ('one_report_per_chunk', "ghost('pg.n') == old(ghost('pg.n')) + 1"),
                    ('reports_cumulative_progress_and_total', "ghost('pg.cur')[ghost('pg.n') - 1] == current and ghost('pg.tot')[ghost('pg.n') - 1] == total"),
                    ('earlier_reports_kept', "forall_int(lambda j: implies(0 <= j and j < old(ghost('pg.n')), "
                     "ghost('pg.cur')[j] == old(ghost('pg.cur'))[j] and ghost('pg.tot')[j] == old(ghost('pg.tot'))[j]))")],
              inv=[('report_log', "ghost('pg.n') >= 0")])

  # ---------------------------------------------------------------- the data phase: exactly the image, in order, bounded chunks
  CH = 'FASTBOOT_DOWNLOAD_CHUNK_SIZE_KB * 1024'
  sent = 'old(data.content)[old(data.pos):]'

  def write_contract(name, cb_kind, callsite, with_progress):
    c = reg.contract(F, 'FastbootProtocol._write', props=['C16'], name=name, callsite=callsite)
    wire(c, script=False, cb=False)
    c.ghost('pg.n', 'int').ghost('pg.cur', 'seq[int]').ghost('pg.tot', 'seq[int]')
    c.requires('report_log', "ghost('pg.n') >= 0")
    c.param('data', 'ref:stringio').param('length', 'int').param('progress_callback', cb_kind)
    c.requires('cursor_inside_the_source', '0 <= data.pos and data.pos <= len(data.content)')
    c.requires('announced_length_is_what_the_source_holds', 'length == len(data.content) - data.pos')
    c.ensures('exactly_the_image_in_order', "ghost('wire.cat') == old(ghost('wire.cat')) + %s" % sent)
    c.ensures('source_consumed', 'data.pos == len(data.content)')
    c.ensures('a_source_that_fits_one_chunk_is_one_packet',
              "implies(0 < old(length) and old(length) <= %s, ghost('wire.n') == old(ghost('wire.n')) + 1 and ghost('wire')[ghost('wire.n') - 1] == %s)" % (CH, sent))
    c.ensures('nothing_to_send_sends_nothing', "implies(old(length) == 0, ghost('wire.n') == old(ghost('wire.n')))")
    c.ensures('chunks_bounded', "ghost('wire.max') <= max(old(ghost('wire.max')), %s)" % CH)
    c.ensures('wire_log_grows', "ghost('wire.n') >= old(ghost('wire.n')) and ghost('wire.max') >= old(ghost('wire.max'))")
    c.ensures('earlier_packets_untouched', "forall_int(lambda j: implies(0 <= j and j < old(ghost('wire.n')), ghost('wire')[j] == old(ghost('wire'))[j]))")
    c.ensures('progress_reported_once_per_chunk',
              "ghost('pg.n') == old(ghost('pg.n')) + (ghost('wire.n') - old(ghost('wire.n')) if progress_callback is not None else 0)")
    c.ensures('last_report_is_the_whole_image',
              "implies(progress_callback is not None and ghost('wire.n') > old(ghost('wire.n')), "
              "ghost('pg.cur')[ghost('pg.n') - 1] == old(length) and ghost('pg.tot')[ghost('pg.n') - 1] == old(length))")
    c.raises('UsbWriteFailedError')
    c.modifies('data.pos')
    inv = [('position', 'old(data.pos) <= data.pos and data.pos <= len(data.content) and data.content == old(data.content)'),
           ('remaining', 'length == len(data.content) - data.pos'),
           ('sent_so_far', "ghost('wire.cat') == old(ghost('wire.cat')) + data.content[old(data.pos):data.pos]"),
           ('chunks_bounded', "ghost('wire.max') <= max(old(ghost('wire.max')), %s)" % CH),
           ('wire_log_grows', "ghost('wire.max') >= old(ghost('wire.max'))"),
           ('earlier_packets_untouched', "forall_int(lambda j: implies(0 <= j and j < old(ghost('wire.n')), ghost('wire')[j] == old(ghost('wire'))[j]))"),
           ('packets', "ghost('wire.n') >= old(ghost('wire.n')) and implies(data.pos == old(data.pos), ghost('wire.n') == old(ghost('wire.n')))"),
           ('one_chunk_sources', "implies(old(length) <= %s and data.pos != old(data.pos), data.pos == len(data.content) and "
            "ghost('wire.n') == old(ghost('wire.n')) + 1 and ghost('wire')[ghost('wire.n') - 1] == %s)" % (CH, sent))]
    mods = ['data.pos']
    if with_progress:
      inv += [('progress_is_what_was_sent', 'progress.current == data.pos - old(data.pos)'),
              ('one_report_per_packet', "ghost('pg.n') == old(ghost('pg.n')) + ghost('wire.n') - old(ghost('wire.n'))"),
              ('last_report', "implies(ghost('wire.n') > old(ghost('wire.n')), ghost('pg.cur')[ghost('pg.n') - 1] == progress.current and "
               "ghost('pg.tot')[ghost('pg.n') - 1] == old(length))")]
      mods.append('progress.current')
    elif with_progress is False:
      inv.append(('no_reports', "ghost('pg.n') == old(ghost('pg.n'))"))
    if with_progress is not None:
      c.loop('while length', inv=inv, modifies=mods, vars={'tmp': 'str', 'length': 'int'})
    return c

  write_contract('FastbootProtocol._write[no progress callback]', 'val{none}', False, False)
  write_contract('FastbootProtocol._write[progress callback]', 'fn:progress_callback', False, True)
  c = write_contract('FastbootProtocol._write', 'opt:fn:progress_callback', True, None)
  c.trusted('case split on progress_callback (None / a callable): the same clauses are verified as the units '
            'FastbootProtocol._write[no progress callback] and FastbootProtocol._write[progress callback]')

  c = reg.contract(F, 'FastbootProtocol.send_command', props=['C16'])
  wire(c, script=False, cb=False)
  c.param('command', 'str').param('arg', 'val{none,str}')
  packet = "(command if arg is None else command + ':' + str(arg))"
  c.ensures('one_packet_command_colon_arg',
            "implies(len(%s) > 0 and len(%s) <= %s, ghost('wire.n') == old(ghost('wire.n')) + 1 and ghost('wire')[ghost('wire.n') - 1] == %s)"
            % (packet, packet, CH, packet))
  c.ensures('exactly_the_command_text', "ghost('wire.cat') == old(ghost('wire.cat')) + %s" % packet)
  c.ensures('wire_log_grows', "ghost('wire.n') >= old(ghost('wire.n')) and ghost('wire.max') >= old(ghost('wire.max'))")
  c.ensures('earlier_packets_untouched', "forall_int(lambda j: implies(0 <= j and j < old(ghost('wire.n')), ghost('wire')[j] == old(ghost('wire'))[j]))")
  c.ensures('chunks_bounded', "ghost('wire.max') <= max(old(ghost('wire.max')), %s)" % CH)
  c.raises('UsbWriteFailedError')
  c.modifies()

  # ---------------------------------------------------------------- simple commands and the download handshake
  ok_spec = dict(terminated="ghost('cursor') > {c0} and {s}[ghost('cursor') - 1][:4] == 'OKAY' and result == {s}[ghost('cursor') - 1][4:]".format(c0=C0, s=S))
  c = reg.contract(F, 'FastbootProtocol.handle_simple_responses', props=['C16'])
  wire(c, writes=False)
  c.param('timeout_ms', 'val{none,int,float}').param('info_cb', 'fn:info_cb').returns('str')
  c.ensures('returns_the_payload_of_the_terminating_OKAY', ok_spec['terminated'])
  c.ensures('INFO_packets_forwarded_in_order', before_last)
  c.ensures('nothing_written', "ghost('wire.n') == old(ghost('wire.n'))")
  for exc, when in (('FastbootStateMismatchError', "%s and %s[:4] == 'DATA'" % (consumed, last)),
                    ('FastbootRemoteFailureError', "%s and %s[:4] == 'FAIL'" % (consumed, last)),
                    ('FastbootInvalidResponseError', "{c} and {l}[:4] != 'INFO' and {l}[:4] != 'OKAY' and {l}[:4] != 'DATA' and {l}[:4] != 'FAIL'".format(c=consumed, l=last))):
    c.raises(exc, when=when)
  c.raises('UsbReadFailedError').raises('Exception')
  c.modifies()

  c = reg.contract(F, 'FastbootProtocol.handle_data_sending', props=['C16'])
  wire(c)
  c.ghost('pg.n', 'int').ghost('pg.cur', 'seq[int]').ghost('pg.tot', 'seq[int]')
  c.requires('report_log', "ghost('pg.n') >= 0")
  c.param('source_file', 'ref:stringio').param('source_len', 'int').param('info_cb', 'fn:info_cb')
  c.param('progress_callback', 'opt:fn:progress_callback').param('timeout_ms', 'val{none,int,float}').returns('str')
  c.requires('cursor_inside_the_source', '0 <= source_file.pos and source_file.pos <= len(source_file.content)')
  c.requires('announced_length_is_what_the_source_holds', 'source_len == len(source_file.content) - source_file.pos')
  c.requires('size_fits_the_announcement', '0 <= source_len and source_len < 2**32')
  # k: index of the DATA packet = first non-INFO packet at or after the old cursor
  c.ensures('exactly_the_image_in_order', "ghost('wire.cat') == old(ghost('wire.cat')) + old(source_file.content)[old(source_file.pos):]")
  c.ensures('chunks_bounded', "ghost('wire.max') <= max(old(ghost('wire.max')), %s)" % CH)
  c.ensures('returns_the_payload_of_the_final_OKAY', ok_spec['terminated'])
  c.ensures('image_sent_only_after_DATA_with_exactly_that_size',
            "forall_int(lambda j: implies({c0} <= j and j < ghost('cursor') and {s}[j][:4] == 'DATA', hex32({s}[j][4:]) == source_len))".format(c0=C0, s=S))
  c.ensures('the_device_did_answer_DATA',
            "exists_int(lambda j: {c0} <= j and j < ghost('cursor') and {s}[j][:4] == 'DATA')".format(c0=C0, s=S))
  c.ensures('earlier_packets_untouched', "forall_int(lambda j: implies(0 <= j and j < old(ghost('wire.n')), ghost('wire')[j] == old(ghost('wire'))[j]))")
  c.ensures('wire_log_grows', "ghost('wire.n') >= old(ghost('wire.n')) and ghost('wire.max') >= old(ghost('wire.max'))")
  c.ensures('progress_reported_once_per_chunk',
            "ghost('pg.n') == old(ghost('pg.n')) + (ghost('wire.n') - old(ghost('wire.n')) if progress_callback is not None else 0)")
  c.raises('FastbootTransferError', ensures=[('no_image_bytes_after_a_refusal', "ghost('wire.n') == old(ghost('wire.n'))"),
                                              ('device_answered_DATA_with_another_size',
                                               "ghost('cursor') > {c0} and {s}[ghost('cursor') - 1][:4] == 'DATA' and hex32({s}[ghost('cursor') - 1][4:]) != source_len".format(c0=C0, s=S))])
  c.raises('FastbootStateMismatchError').raises('FastbootRemoteFailureError').raises('FastbootInvalidResponseError')
  c.raises('UsbReadFailedError').raises('UsbWriteFailedError').raises('Exception')
  c.raises('ValueError')         # DATA payload that is not 8 hex digits (binascii.Error) - or a callback's own ValueError
  c.modifies('source_file.pos')

  # ---------------------------------------------------------------- FastbootCommands: every command is one "command[:arg]" packet
  def simple(qual, params, packet, props=('C16',)):
    c = reg.contract(F, 'FastbootCommands.' + qual, props=list(props))
    wire(c)
    for n, k in params:
      c.param(n, k)
    c.requires('command_fits_a_fastboot_packet', 'len(%s) <= 64' % packet)      # protocol limit; the chunk size is >= 1024
    c.ensures('one_packet_command_colon_arg', "ghost('wire.n') == old(ghost('wire.n')) + 1 and ghost('wire')[ghost('wire.n') - 1] == %s" % packet)
    c.ensures('terminated_by_OKAY', "ghost('cursor') > {c0} and {s}[ghost('cursor') - 1][:4] == 'OKAY'".format(c0=C0, s=S))
    c.ensures('INFO_packets_forwarded_in_order', before_last)
    for exc in ('FastbootStateMismatchError', 'FastbootRemoteFailureError', 'FastbootInvalidResponseError', 'UsbReadFailedError',
                'UsbWriteFailedError', 'Exception'):
      c.raises(exc)
    c.modifies()
    return c
  T = ('timeout_ms', 'val{none,int,float}')
  CB = ('info_cb', 'fn:info_cb')
  simple('flash', [('partition', 'str'), T, CB], "'flash:' + partition").returns('str')
  simple('erase', [('partition', 'str'), T], "'erase:' + partition")
  simple('get_var', [('var', 'str'), CB], "'getvar:' + var").returns('str')
  simple('oem', [('command', 'str'), T, CB], "'oem ' + command").returns('str')
  simple('continue_', [], "'continue'").returns('str')
  simple('reboot', [('target_mode', 'val{none,str}'), T], "('reboot' if target_mode is None else 'reboot:' + str(target_mode))").returns('str')
  simple('reboot_bootloader', [T], "'reboot-bootloader'").returns('str')

  c = reg.contract(F, 'FastbootCommands.download', props=['C16'])
  wire(c)
  c.ghost('pg.n', 'int').ghost('pg.cur', 'seq[int]').ghost('pg.tot', 'seq[int]')
  c.requires('report_log', "ghost('pg.n') >= 0")
  c.param('source_file', 'ref:stringio').param('source_len', 'int').param('info_cb', 'fn:info_cb')
  c.param('progress_callback', 'opt:fn:progress_callback').returns('str')
  size = '(len(old(source_file.content)) - old(source_file.pos))'
  c.requires('cursor_inside_the_source', '0 <= source_file.pos and source_file.pos <= len(source_file.content)')
  c.requires('given_length_is_what_the_source_holds', 'source_len == 0 or source_len == len(source_file.content) - source_file.pos')
  c.requires('size_fits_the_announcement', 'len(source_file.content) - source_file.pos < 2**32')
  c.ensures('announces_the_size_as_8_hex_digits', "ghost('wire')[old(ghost('wire.n'))] == 'download:' + hex8(%s)" % size)
  c.ensures('then_exactly_the_image_in_order',
            "ghost('wire.cat') == old(ghost('wire.cat')) + 'download:' + hex8(%s) + old(source_file.content)[old(source_file.pos):]" % size)
  c.ensures('chunks_bounded', "ghost('wire.max') <= max(old(ghost('wire.max')), %s)" % CH)
  c.ensures('terminated_by_OKAY', "ghost('cursor') > {c0} and {s}[ghost('cursor') - 1][:4] == 'OKAY' and result == {s}[ghost('cursor') - 1][4:]".format(c0=C0, s=S))
  c.raises('FastbootTransferError', ensures=[('only_the_announcement_was_sent', "ghost('wire.n') == old(ghost('wire.n')) + 1")])
  for exc in ('FastbootStateMismatchError', 'FastbootRemoteFailureError', 'FastbootInvalidResponseError', 'UsbReadFailedError',
              'UsbWriteFailedError', 'Exception', 'ValueError'):
    c.raises(exc)
  c.modifies('source_file.pos', 'stringio.content', 'stringio.pos')


# --------------------------------------------------------------------------------------------------------------------
# replay of counter-models on the real code: a scripted fake bootloader behind the real FastbootProtocol
# --------------------------------------------------------------------------------------------------------------------
def _import_fastboot():
  import sys, types, os
  repo = os.environ.get('PYVC_REPO', '/repo')
  if 'libusb1' not in sys.modules:
    m = types.ModuleType('libusb1'); m.LIBUSB_ERROR_TIMEOUT = -7
    sys.modules['libusb1'] = m
  if 'openhtf.plugs.usb' not in sys.modules or not hasattr(sys.modules['openhtf.plugs.usb'], '__path__'):
    import openhtf.plugs   # noqa
    pkg = types.ModuleType('openhtf.plugs.usb'); pkg.__path__ = [os.path.join(repo, 'openhtf/plugs/usb')]
    sys.modules['openhtf.plugs.usb'] = pkg
  import importlib
  fp = importlib.import_module('openhtf.plugs.usb.fastboot_protocol')
  ue = importlib.import_module('openhtf.plugs.usb.usb_exceptions')
  return fp, ue


class _FakeUsb(object):
  def __init__(self, script):
    self.script, self.pos, self.written = list(script), 0, []

  def read(self, n, timeout_ms=None):
    if self.pos >= len(self.script):
      raise IndexError('device script exhausted (replay)')
    self.pos += 1
    return self.script[self.pos - 1]

  def write(self, data):
    self.written.append(data)


def _script_of(model):
  out = []
  for i in range(NOBS):
    v = model.get('script+%d' % i)
    out.append(v if isinstance(v, str) else '')
  return out


def _oracle_accept(script, expected):
  """What docs/property C16 prescribe for a response stream: (kind, payload, forwarded messages)."""
  fwd = []
  for k, p in enumerate(script):
    h, rest = p[:4], p[4:]
    if h == 'INFO':
      fwd.append((rest, h)); continue
    if h in ('OKAY', 'DATA'):
      if h != expected:
        return ('FastbootStateMismatchError', None, fwd)
      if h == 'OKAY':
        fwd.append((rest, h))
      return ('return', rest, fwd)
    if h == 'FAIL':
      fwd.append((rest, h))
      return ('FastbootRemoteFailureError', rest, fwd)
    return ('FastbootInvalidResponseError', None, fwd)
  return ('exhausted', None, fwd)


def replay_accept(model, ob):
  fp, ue = _import_fastboot()
  script = _script_of(model)
  expected = model.get('in_expected_header') or 'OKAY'
  usb = _FakeUsb(script)
  got = []
  proto = fp.FastbootProtocol(usb)
  out = {'script': script, 'expected_header': expected}
  want = _oracle_accept(script, expected)
  out['prescribed'] = repr(want)
  if want[0] == 'exhausted':
    out['reproduced'] = False
    out['note'] = 'the counter-model needs more than %d packets' % NOBS
    return out
  try:
    r = proto._accept_responses(expected, lambda m: got.append((m.message, m.header)))
    actual = ('return', r, got)
  except Exception as e:   # pylint: disable=broad-except
    actual = (type(e).__name__, None, got)
  out['actual'] = repr(actual)
  out['reproduced'] = (actual[0] != want[0]) or (want[0] == 'return' and actual[1] != want[1]) or actual[2] != want[2]
  return out


def replay_data_sending(model, ob):
  """DATA announcing a size different from the image: the property wants FastbootTransferError and no image byte."""
  fp, ue = _import_fastboot()
  out = {}
  reproduced = False
  for image, announced in (('abcdef', 6), ('abcdef', 7), ('abcdef', 5), ('abcdef', 2**31)):
    import io
    usb = _FakeUsb(['DATA%08x' % announced, 'OKAY'])
    proto = fp.FastbootProtocol(usb)
    try:
      proto.handle_data_sending(io.StringIO(image), len(image), info_cb=lambda m: None)
      res = 'returned'
    except Exception as e:   # pylint: disable=broad-except
      res = type(e).__name__
    ok = (res == 'returned' and ''.join(usb.written) == image) if announced == len(image) else (res == 'FastbootTransferError' and not usb.written)
    out['image=%r announced=%d' % (image, announced)] = {'result': res, 'written': usb.written, 'as_prescribed': ok}
    reproduced = reproduced or not ok
  out['reproduced'] = reproduced
  return out


def replay_progress(model, ob):
  import logging
  logging.disable(logging.CRITICAL)
  """A progress callback that raises must not disturb the coroutine."""
  fp, ue = _import_fastboot()
  calls = []

  def cb(cur, total):
    calls.append((cur, total))
    raise RuntimeError('progress callback failure (replay)')
  gen = fp.FastbootProtocol(_FakeUsb([]))._handle_progress(10, cb)
  out = {}
  try:
    next(gen); gen.send(4); gen.send(6)
    out['actual'] = 'both send() calls returned; reports: %r' % (calls,)
    out['reproduced'] = calls != [(4, 10), (10, 10)]
  except BaseException as e:   # pylint: disable=broad-except
    out['actual'] = 'send() raised %s after reports %r' % (type(e).__name__, calls)
    out['reproduced'] = True
  return out
