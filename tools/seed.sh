#!/bin/bash
# tools/seed.sh <PROP> <agent worktree>  : confirm each _out/change<i> in a fresh scratch worktree (demo fails with the
# change and passes without; baseline suite still passes), install it as /verif/seeded/<PROP>-<i>/, then run the check
# with the patch applied to /repo and undo it straight afterwards.
PROP=$1; WT=$2
for d in $WT/_out/change*; do
  i=$(basename $d | sed 's/change//')
  S=/tmp/seedcheck.$$; rm -rf $S; git -C /repo worktree add -q --detach $S HEAD
  ( cd $S; PYTHONPATH=$S /venv/bin/python $d/demo.py >/dev/null 2>&1; echo "demo_without=$?" ) > /tmp/seed.log
  ( cd $S; git apply $d/patch.diff && echo applied=0 || echo applied=1 ) >> /tmp/seed.log
  ( cd $S; PYTHONPATH=$S /venv/bin/python $d/demo.py >/dev/null 2>&1; echo "demo_with=$?" ) >> /tmp/seed.log
  ( cd $S; /venv/bin/python -m pytest -q -p no:cacheprovider --timeout=900 --continue-on-collection-errors 2>&1 | tail -1 ) > /tmp/seed.tests
  git -C /repo worktree remove --force $S
  cat /tmp/seed.log | tr '\n' ' '; echo " tests: $(cat /tmp/seed.tests)"
  if grep -q "demo_without=0" /tmp/seed.log && grep -q "applied=0" /tmp/seed.log && ! grep -q "demo_with=0" /tmp/seed.log && grep -q "307 passed" /tmp/seed.tests; then
    T=/verif/seeded/$PROP-$i; mkdir -p $T; cp $d/patch.diff $d/demo.py $T/
    python3 - $d/meta.json $T/meta.json "$(cat /tmp/seed.log | tr '\n' ' ')" "$(cat /tmp/seed.tests)" <<'PY'
import json, sys
m = json.load(open(sys.argv[1]))
m['confirmed'] = {'how': 'scratch worktree of /repo HEAD: demo.py exit 0 without the patch, non-zero with it; full baseline command run with the patch', 'log': sys.argv[3], 'baseline_with_patch': sys.argv[4]}
json.dump(m, open(sys.argv[2], 'w'), indent=1)
PY
    git -C /repo apply $d/patch.diff
    ( cd /verif; ./check $PROP 2>&1 | grep -v "WARNING conda" | cut -c1-250 | tail -4 ) | tee /tmp/seed.check
    git -C /repo checkout -- .
    python3 - $T/meta.json <<'PY'
import json, sys
m = json.load(open(sys.argv[1]))
out = open('/tmp/seed.check').read()
m['check_result'] = {'detected': 'VIOLATION' in out, 'output_tail': out[-900:]}
json.dump(m, open(sys.argv[1], 'w'), indent=1)
PY
  else
    echo "NOT CONFIRMED: $d"
  fi
done
