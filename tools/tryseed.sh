#!/bin/bash
# tools/tryseed.sh <PROP> <patch.diff> [check args]: run ./check PROP against a scratch worktree of /repo with the patch applied (PYVC_REPO); /repo untouched
PROP=$1; PATCH=$2; shift 2
S=/tmp/tryseed.$$; git -C /repo worktree prune; git -C /repo worktree add -q --detach $S HEAD
( cd $S && git apply $PATCH ) || { echo "patch does not apply"; git -C /repo worktree remove --force $S; exit 9; }
( cd /verif; PYVC_REPO=$S ./check $PROP "$@" 2>&1 | grep -v "WARNING conda" | cut -c1-330 | tail -6 )
git -C /repo worktree remove --force $S
