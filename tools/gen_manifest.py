"""Regenerates MANIFEST.json from the table below (claimed properties) + properties.jsonl (everything else -> not_applicable)."""
import json, os
V = os.path.dirname(os.path.dirname(os.path.abspath(__file__)))
CLAIMED = {
 'C01': ('finalization ladder (abort > first terminal outcome > aggregation), aggregation of finalize_normally, failure-exception rule, '
         'first-terminal-event-decides in _execute_phase/_execute_checkpoint: every obligation generated from the current sources is discharged',
         'callee contracts of PhaseExecutor.execute_phase/skip_phase/evaluate_checkpoint and PlugManager are assumed here (verified, where claimed, under C05/C02/C08); '
         'TestExecutor._thread_proc (executor crash => not PASS) and Test.execute return value are not yet under contract'),
 'C06': ('recorded value = transform(last assigned value) (MeasuredValue.set), outcome PASS exactly when every attached validator accepts the recorded '
         'value else FAIL, marginal iff PASS and some validator deems the value marginal, a raising validator / transform (first one in evaluation order) '
         'fails the measurement and propagates, assignment to an undeclared name or to a dimensioned measurement without coordinates is rejected and changes '
         'nothing, other measurements untouched (Collection.__setitem__), with_validator / validate_on only append, wrong number of coordinates (scalar, or tuple of the wrong length) rejected, '
         'dimensioned measurements become PARTIALLY_SET and are validated at phase end, nothing leaves a phase PARTIALLY_SET (PhaseState._finalize_measurements)',
         'validators / transform / is_marginal are deterministic opaque functions that return or raise; the positive path of DimensionedMeasuredValue.__setitem__ '
         '(tuple-keyed insertion order) and the activation of conditional validators in PhaseState.from_descriptor (deepcopy per declared measurement) are not under contract; '
         'Measurement.validate for dimensioned values is used by contract only'),
 'C07': ('function-against-spec contracts for InRange, AllInRangeValidator, WithinPercent, Equals, the equals/all_equals/matches_regex factories, '
         'RegexMatcher, with_args/__eq__ and DimensionPivot, over the full value union (None|bool|int|float|str)',
         'float is modelled as real|NaN|+-inf with IEEE facts for rounded arithmetic; re semantics trusted (pattern text and method identity are proved); '
         'of ConsistentEndDimensionPivot only "false when no row passes" and "true only if some row passes" are proved (the closure clause over the slice is left undischarged by the solvers and is not claimed); __str__ is not under contract'),
 'C20': ('every _Configuration operation verified against the three-map view (declarations, loaded, flags) from an arbitrary pre-state: lookup precedence, '
         'contains/getattr/holder/_asdict agreement, loading rule with loop invariants, reset, declare, setattr, save_and_restore wrapper on normal and exceptional exits',
         'yaml parsing and file reading trusted; @threads.synchronized taken as locking only; load_flag_values loop not under contract'),
 'C04': ('TestExecutor.abort marks the run aborted first, a second abort is a full abort, flags are never cleared; the abort flag is read before every node of an '
         'abortable sequence is dispatched and a set flag ends the sequence; _stop_phase_executor: stop + reset_stop inside one critical section of the teardown lock '
         '(unless forced), every acquired lock released on every exit, abort flags untouched; _execute_test_teardown: ABORTED wins when the flag is set at finalization '
         '(the flag is read after plug tearDown), never PASS; TestState.abort',
         'sequential order and lock-discipline obligations only: "under no interleaving does the executor deadlock / start a phase after abort returned / run two '
         'bodies at once" quantifies over schedules and is outside this technique; PhaseExecutor.stop (kill / wait handshake) is used by contract'),
 'C05': ('decision table of PhaseState.finalize (result kind x measurements x stop_on_measurement_fail x diagnosers) with its helpers, result validation in the '
         'phase thread, join_or_die (stored outcome wins, no false timeout), one record per invocation in _execute_phase_once and that record keeps the result the phase '
         'thread returned (only finalization may replace it), run_if rules, '
         'repeat loop bound (at most repeat_limit invocations) with loop invariants; skip_phase',
         'thread start/join, the user phase body, run_if and diagnosers are opaque (trusted model: contracts/_trusted.py, frame assumption *user); '
         'DiagnosesManager._convert_result (generator) is assumed, not verified; known finding: ERROR record left behind by forced repeats'),
 'C08': ('PlugManager.initialize_plugs constructs only the requested plug types (the given list, else the declared set), never a type that already has an '
         'instance, each type at most once, registers every instance it constructed and keeps existing ones; on any constructor / validation failure everything '
         'constructed so far is torn down and the error propagates; tear_down_plugs starts exactly one tearDown thread per registered instance (in order), only '
         'waits for it with the configured timeout, kills it when still alive and clears the maps; TestExecutor._initialize_plugs turns a failure into a '
         'terminal error outcome; _execute_test_teardown tears plugs down before finalizing whatever the outcome',
         'plug classes / instances are opaque objects (construction, tearDown, uses_base_tear_down, issubclass are uninterpreted); Thread.start is trusted to run '
         'the tearDown; provide_plugs (same instance under the requested name), the executor-level order relative to output callbacks and "abandoned after '
         'the timeout" (kill delivery) are not decided here'),
 'C09': ('the whole of Test.execute: refuses (InvalidTestStateError, nothing started) iff an executor is already attached, tested and filled inside one '
         'critical section of Test._lock; re-waits once after a KeyboardInterrupt and re-raises it; finalize() only after the executor thread has finished; '
         'every registered output callback is called exactly once, in registration order, with one and the same record, also when callbacks raise and on the '
         'KeyboardInterrupt exit; the executor slot and the TEST_INSTANCES entry are released on every exit; returns True iff the record outcome is PASS; '
         'TestExecutor.finalize sets the default DUT id when the test never set one',
         'TestExecutor.wait / __init__ / close, duplicate-name checks, console output and profiling are used by (trusted) contract; "a finished executor thread '
         'has finalized its record" links to the C01 contracts of the executor and is assumed here; test_start given as a lambda is outside the subset; '
         'record-completeness clauses (every phase record has outcome / options / start <= end) are C05 / C01 matters'),
 'C10': ('TestRecord.as_base_types renders every record list (phases, subtests, branches, checkpoints, diagnoses, log records) from its cache; every add_*_record '
         'appends to the list and to its cache in lockstep, the cache entry being the rendering of the new record; MeasuredValue caches the rendering of the '
         'recorded post-transform value; Measurement.validate keeps the cached outcome equal to the in-memory outcome on the normal and on the exceptional exit; '
         'convert_to_base_types on scalars passes None / bool / int / str / finite floats through and never returns a non-finite '
         'float when json_safe (strict JSON)',
         'container / attrs / namedtuple recursion of convert_to_base_types is used as a pure function only; the dimensioned-measurement cache, PhaseState._cached / '
         '_update_measurements (functools.partial closures) and json.dumps are outside the subset: two of the five seeded changes for this property are in '
         'those parts and are not detected, one (type(value) in a frozenset of types) leaves the unit undecided'),
 'C12': ('KillableThread.kill always records the request, never raises into a thread that is not alive, at most one asynchronous raise; KillableThread.run: a kill '
         'requested before the start prevents the body, the body runs at most once and only inside the running lock, the finish hook runs exactly once on every exit; '
         'PhaseExecutorThread.join_or_die (stored outcome wins, TIMEOUT only if still alive after the deadline, the thread is killed then)',
         'virtual time, the bounded delay after the deadline, delivery of the asynchronous exception and what an abandoned body does later are thread-timing matters '
         'outside this technique; async_raise is used by contract; the monotonic-vs-wall-clock choice is only visible as a changed loop (undecided, not proved)'),
 'C13': ('header = six little-endian words (command, arg0, arg1, length, byte sum, command xor 0xFFFFFFFF), receipt validation '
         '(short/empty header, unknown command, length or checksum mismatch are rejected), payload-after-header on every exit, '
         'every transport write/read inside one critical section of the writer/reader lock',
         'struct.pack/unpack and the raw transport are trusted models; non-interleaving of two writers follows from the lock obligations by the standard monitor lemma (manual); read_until not under contract'),
 'C02': ('every executor handler (_execute_node dispatch, abortable / teardown sequence loops, subtest, branch, group, phase, checkpoint) verified against a '
         'generic node contract plus its own rule over a ghost call log (which children are invoked, in which order, with which subtest record and teardown '
         'flag); structural induction over the node tree by using the handlers\' contracts at the recursive calls; branch conditions (ALL/ANY/NOT_ANY/NOT_ALL), '
         'checkpoint conditions (LAST/ALL/SUBTEST, diagnosis conditions), one record per evaluation',
         'the node tree is assumed finite and made of the concrete node classes (constructors not under contract); user phase bodies are opaque; '
         'the document docs/event_sequence.md is represented by the rules in contracts/c02.py, which were written from it and from the property text'),
 'C03': ('group gate (setup must CONTINUE), main then teardown exactly once with the teardown flag, teardown of a group entered before a subtest failure, '
         'most-critical result, teardown sequence runs every node unless a second abort, under the teardown lock; stop + reset_stop form one critical '
         'section of that lock on a non-forced abort; every acquired lock released on every exit',
         'the interleaving clause (an abort landing between any two statements) is outside this technique: only the lock discipline and the order of flag '
         'reads / writes are proved; PhaseExecutor.stop is used by contract (its wait loop is concurrency)'),
 'C14': ('routing of an incoming packet by local id (returned to the waiting stream iff addressed to it, else queued on the addressed stream, dropped for unknown '
         'ids), every device WRTE acknowledged by exactly one OKAY carrying that stream\'s local and remote ids, stream sends carry the stream\'s ids and at most maxdata '
         'bytes, a host write is split into chunks <= maxdata that concatenate to the data, one WRTE in flight (a write while an OKAY is outstanding is refused and '
         'an unacknowledged WRTE stays recorded), received WRTE data is buffered exactly once in order, maxdata is the value the device announced; '
         'read_for_stream: per-call reader rules (see note); every message waiting in a stream queue, and whatever read_for_stream returns, is an intact '
         'OKAY / CLSE / WRTE packet (queue invariant carried through enqueue_message and the routing)',
         'AdbConnection.read_for_stream is verified for one caller at a time (queued messages are delivered first and in order, at most one message is taken per call, a '
         'closed stream still delivers what was queued for it, AdbStreamClosedError only for an unregistered stream with an empty queue, wire frames are read only '
         'while holding the connection reader lock, locks balanced on every exit), with queue.Queue modelled as (items, head), the caller view of read_message '
         'abstracted from its C13 contract, a device that never sends READY with remote id 0 and monotone timeout expiry as stated assumptions; '
         'no deadlock / no lost wake-up / timeouts of blocked readers are schedule-quantified and outside this technique; _read_messages_until_true is used by trusted contract'),
 'C15': ('remote id set once by the first OKAY and never changed, OKAY / CLSE / WRTE handling of a stream, close from either side answered by exactly one CLSE with '
         'the stream\'s ids and the id released (closing twice sends nothing), packet types illegal mid-session raise AdbProtocolError (defect found and fixed), '
         'AdbConnection.__init__ (maxdata, banner split, malformed banner), connect(): CNXN first, only TOKEN challenges are signed, keys tried in order each at '
         'most once, at most one public key, a connection only after the CNXN of the device with its maxdata; _make_stream_transport: the allocated local id is non-zero, '
         'below the id limit and distinct from every registered stream, the new stream is registered under it, PENDING, without remote id, with an empty queue of its own',
         'read_until (skipping unrelated packets) and the signers are used by trusted contract; itertools.chain / islice over integer ranges and list(dict.keys()) are trusted '
         'symbolic models; open_stream / ensure_opened are not under contract'),
 'C16': ('response loop (INFO forwarded in order, OKAY payload returned, FAIL / out-of-place DATA or OKAY / unknown header raise the prescribed error), '
         'one "command[:arg]" packet per command, download announcement "download:%08x", image bytes only after DATA with exactly that size, '
         'exactly the image in order in chunks <= chunk size, cumulative progress, progress-callback failures absorbed (coroutine contract); '
         'counter-models are replayed on the real FastbootProtocol behind a scripted fake bootloader',
         'usb handle and StringIO-like source are trusted ghost models; unhexlify / struct.unpack(">I") / "%08x" round trip is a trusted fact; '
         'partial correctness only for _write (the announced length must equal what the source holds); fastboot_device.py not under contract'),
 'C17': ('ghost file-system invariant "the destination only ever receives the complete serialization", checked after every file-system operation of '
         'Atomic, OutputToFile.__call__ (str and chunked serializers, serializer interrupted after k chunks by any BaseException incl. a thread kill, every write/close/move failing) and atomic_write',
         'file-system model is trusted (atomic rename on one file system, buffered writes reach the file as a prefix until close succeeds)'),
}
props = [json.loads(l) for l in open(os.path.join(V, 'properties.jsonl'))]
m = {
 'version': 1,
 'setup_cmd': './setup.sh',
 'hooks': {'guard': 'OPENHTF_VERIF', 'enable': 'no instrumentation of /repo: contracts are sidecar files under /verif/contracts and the verifier re-reads /repo sources with ast on every run',
           'baseline_off_cmd': 'cd /repo && /venv/bin/python -m pytest -ra -q -p no:cacheprovider --timeout=900 --continue-on-collection-errors',
           'source_commits': [], 'add_only': True},
 'engines': [{'name': 'pyvc', 'path': '/verif/pyvc', 'serves_properties': sorted(CLAIMED),
              'kind_free_text': 'contract-based deductive verifier for a Python subset: sidecar contracts, VC generation by symbolic execution of the real ASTs (loops cut at invariants, callees by contract), z3 with E-matching, z3-MBQI and cvc5 as fallbacks'}],
 'checks': [], 'not_applicable': [],
 'notes': 'exit codes: 0 held / 1 VIOLATION / 2 undecided / 3 checker error. Repairs of genuine defects are "fix:" commits in /repo, listed in known_findings.json.',
}
for p in props:
  i = p['id']
  if i in CLAIMED:
    m['checks'].append({
      'property_id': i, 'quick_cmd': './check %s --tier quick' % i, 'thorough_cmd': './check %s --tier thorough' % i,
      'evidence_file': '/verif/evidence/%s.json' % i, 'replay_cmd_template': './check %s --replay {path}' % i, 'engine': 'pyvc',
      'level_claimed': {'category': 'proof', 'text': CLAIMED[i][0], 'design_ref': 'DESIGN.md section 6 (%s) and section 12 (status)' % i},
      'level_note': CLAIMED[i][1] + '; trusted base and assumptions are enumerated in the evidence file',
      'technique': 'contract-based deductive verification (sidecar contracts; pyvc generates VCs from the real ASTs; z3/cvc5 discharge)'})
  else:
    reasons = {
      'C11': 'isolation between runs is a whole-heap frame property ("executing a test never mutates anything it was declared with", copies made by copy.deepcopy / attr.evolve / '
             'data.attr_copy): it needs ownership regions over the descriptor graph and a model of deepcopy that the verifier built here does not have; two concurrent tests are '
             'schedule-quantified. No contract within reach decides it; not replaced by another technique (DESIGN.md section 12.6)',
      'C18': 'the property quantifies over interleavings of watchers and updaters of SubscribableStateMixin (no lost update, every watcher woken): the monitor invariant could be '
             'stated per method, but the step from it to "never misses a change" is a concurrency argument this technique does not decide, and the time went into the sequential '
             'properties; not replaced by another technique (DESIGN.md section 12.6)',
      'C19': 'log capture runs through the logging module (handler / filter objects, logging.LogRecord, regex substitution of MAC addresses): almost all of the behaviour is in '
             'stdlib code that would have to be trusted wholesale, so a contract on RecordHandler.emit / MacAddressLogFilter would prove little; not reached within the budget and '
             'not replaced by another technique (DESIGN.md section 12.6)',
    }
    m['not_applicable'].append({'property_id': i, 'reason': reasons.get(i, 'not reached')})
json.dump(m, open(os.path.join(V, 'MANIFEST.json'), 'w'), indent=1)
print('claimed', sorted(CLAIMED))
