import sys, time
sys.path.insert(0, '/verif')
import z3
from pyvc.run import load_registry
from pyvc.state import Ctx
from pyvc.verify import Exec
from pyvc import solve
repo, reg = load_registry()
name, pat = sys.argv[1], sys.argv[2]
con = [c for c in reg.contracts if c.name == name][0]
ctx = Ctx(repo, reg, 'T/' + name)
ex = Exec(ctx)
ex.verify_unit(con)
for o in ctx.obligations:
  if pat in o.name:
    s = z3.Solver(); s.add(*o.pc); s.add(z3.Not(o.goal))
    if s.check() == z3.sat:
      m = s.model()
      print('SAT', o.name)
      for d in m.decls():
        if d.name().startswith(('fn_','fl_','int2fp','in_','H0_')):
          print(d.name(), '=', str(m[d]).replace('\n',' ')[:900])
      break
