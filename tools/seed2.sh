#!/bin/bash
# tools/seed2.sh <PROP> <agent worktree> <index offset> [verif dir]
# Like seed.sh, but runs the check against a scratch worktree of /repo with the patch applied (PYVC_REPO), so /repo itself is
# never touched and several seeds can be processed side by side.  Confirms first: demo passes without / fails with the change,
# the pinned suite still gives 307 passed with it.
PROP=$1; WT=$2; OFF=${3:-0}; V=${4:-/verif}
for d in $WT/_out/change*; do
  [ -f $d/patch.diff ] || continue
  i=$(( $(basename $d | sed 's/change//') + OFF ))
  S=/tmp/seedcheck.$PROP.$i; rm -rf $S; git -C /repo worktree prune; git -C /repo worktree add -q --detach $S HEAD
  L=/tmp/seed.$PROP.$i.log
  ( cd $S; PYTHONPATH=$S timeout 120 /venv/bin/python $d/demo.py >/dev/null 2>&1; echo "demo_without=$?" ) > $L
  ( cd $S; git apply $d/patch.diff && echo applied=0 || echo applied=1 ) >> $L
  ( cd $S; PYTHONPATH=$S timeout 120 /venv/bin/python $d/demo.py >/dev/null 2>&1; echo "demo_with=$?" ) >> $L
  ( cd $S; /venv/bin/python -m pytest -q -p no:cacheprovider --timeout=900 --continue-on-collection-errors 2>&1 | tail -1 ) > $L.tests
  if grep -q "demo_without=0" $L && grep -q "applied=0" $L && ! grep -q "demo_with=0" $L && grep -q "307 passed" $L.tests; then
    T=/verif/seeded/$PROP-$i; mkdir -p $T; cp $d/patch.diff $d/demo.py $T/
    python3 - $d/meta.json $T/meta.json "$(cat $L | tr '\n' ' ')" "$(cat $L.tests)" <<'PY'
import json, sys
m = json.load(open(sys.argv[1]))
m['confirmed'] = {'how': 'scratch worktree of /repo HEAD: demo.py exit 0 without the patch, non-zero with it; full baseline command run with the patch', 'log': sys.argv[3], 'baseline_with_patch': sys.argv[4]}
json.dump(m, open(sys.argv[2], 'w'), indent=1)
PY
    ( cd $V; PYVC_REPO=$S ./check $PROP > $L.check 2>&1; echo $? > $L.rc )
    python3 - $T/meta.json $L.check $(cat $L.rc) <<'PY'
import json, sys
m = json.load(open(sys.argv[1]))
lines = [l for l in open(sys.argv[2]) if 'WARNING conda' not in l]
out = ''.join(l[:250] + ('\n' if len(l) > 250 else '') for l in lines[-4:])
rc = int(sys.argv[3])
m['check_result'] = {'detected': 'VIOLATION' in out and rc == 1, 'exit': rc,
                     'replayed_on_real_code': any(l.startswith('VIOLATION') and not l.rstrip().endswith('no-failing-input-found') for l in lines),
                     'output_tail': out[-900:]}
json.dump(m, open(sys.argv[1], 'w'), indent=1)
PY
    echo "$PROP-$i: exit=$(cat $L.rc) $(grep -c '^VIOLATION' $L.check) violation line(s): $(grep '^VIOLATION' $L.check | head -1 | cut -c1-160)"
  else
    echo "NOT CONFIRMED: $d $(cat $L | tr '\n' ' ') $(cat $L.tests)"
  fi
  git -C /repo worktree remove --force $S
done
