#!/bin/bash
# tools/reseed2.sh <verif dir> [jobs] [PROP ...]: re-run every stored seeded change against the machinery in <verif dir> (normally a git
# worktree of the committed /verif with .venv linked), each in its own scratch worktree of /repo with the patch applied (PYVC_REPO), several
# side by side; /repo itself is never touched.  Refreshes /verif/seeded/<id>/meta.json:check_result.
V=${1:-/verif}; J=${2:-4}; shift 2
PROPS="$@"
one() {
  T=$1; V=$2
  id=$(basename $T); prop=${id%-*}
  S=/tmp/reseed.$id; rm -rf $S; git -C /repo worktree add -q --detach $S HEAD 2>/dev/null
  if ! ( cd $S && git apply $T/patch.diff 2>/dev/null ); then echo "$id: patch no longer applies"; git -C /repo worktree remove --force $S; return; fi
  mkdir -p /tmp/reseed.ev.$id
  ( cd $V; PYVC_REPO=$S PYVC_EVIDENCE_DIR=/tmp/reseed.ev.$id ./check $prop > /tmp/reseed.$id.out 2>&1; echo $? > /tmp/reseed.$id.rc )
  git -C /repo worktree remove --force $S
  python3 - $T/meta.json /tmp/reseed.$id.out $(cat /tmp/reseed.$id.rc) <<'PY'
import json, sys
m = json.load(open(sys.argv[1]))
lines = [l for l in open(sys.argv[2]) if 'WARNING conda' not in l]
rc = int(sys.argv[3])
tail = ''.join(l[:250] + ('\n' if len(l) > 250 else '') for l in lines[-4:])
m['check_result'] = {'detected': any(l.startswith('VIOLATION') for l in lines) and rc == 1, 'exit': rc,
                     'replayed_on_real_code': any(l.startswith('VIOLATION') and not l.rstrip().endswith('no-failing-input-found') for l in lines),
                     'output_tail': tail[-900:]}
json.dump(m, open(sys.argv[1], 'w'), indent=1)
PY
  echo "$id: exit=$(cat /tmp/reseed.$id.rc) $(grep -c '^VIOLATION' /tmp/reseed.$id.out) violation line(s)"
  rm -rf /tmp/reseed.ev.$id /tmp/reseed.$id.out /tmp/reseed.$id.rc
}
export -f one
git -C /repo worktree prune
for T in /verif/seeded/*/; do
  id=$(basename $T); prop=${id%-*}
  if [ -n "$PROPS" ] && ! echo " $PROPS " | grep -q " $prop "; then continue; fi
  echo $T
done | xargs -P $J -I{} bash -c 'one {} '$V
