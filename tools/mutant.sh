#!/bin/sh
# tools/mutant.sh <prop> <file relative to repo> <python-regex-or-literal old> <new>   -- applies one textual mutant
# to a scratch copy of /repo (outside /repo and /verif), runs the check against it and removes the copy.
set -e
PROP=$1; FILE=$2; OLD=$3; NEW=$4
D=$(mktemp -d /tmp/pyvc_mut.XXXXXX)
mkdir -p $D/repo && rsync -a --exclude .git --exclude 'web_gui' /repo/openhtf $D/repo/ 
python3 - "$D/repo/$FILE" "$OLD" "$NEW" <<'PY'
import sys
p, old, new = sys.argv[1:4]
s = open(p).read()
n = s.count(old)
if n < 1:
  print('MUTANT-ERROR: pattern not found'); sys.exit(7)
s = s.replace(old, new, 1)
open(p, 'w').write(s)
PY
cd /verif
PYVC_REPO=$D/repo ./check $PROP 2>&1 | grep -v "WARNING conda" | cut -c1-260 | tail -${TAILN:-4}
rm -rf $D
