import sys
sys.path.insert(0, '/verif')
import z3
from pyvc.run import load_registry
from pyvc.state import Ctx
from pyvc.verify import Exec
repo, reg = load_registry()
name, pat, out = sys.argv[1], sys.argv[2], sys.argv[3]
con = [c for c in reg.contracts if c.name == name][0]
ctx = Ctx(repo, reg, 'T/' + name)
ex = Exec(ctx)
ex.verify_unit(con)
n = 0
for o in ctx.obligations:
  if pat in o.name:
    s = z3.Solver(); s.add(*o.pc); s.add(z3.Not(o.goal))
    open('%s.%d.smt2' % (out, n), 'w').write('(set-logic ALL)\n' + s.to_smt2())
    n += 1
print(n, 'dumped')
