#!/bin/bash
# tools/reseed.sh [PROP ...] : re-run the stored seeded changes (/verif/seeded/<PROP>-<i>/patch.diff) against the current
# machinery: apply to /repo, run the property's check, undo straight afterwards, refresh meta.json:check_result.
cd /verif
PROPS="$@"
for T in /verif/seeded/*/; do
  id=$(basename $T); prop=${id%-*}
  if [ -n "$PROPS" ] && ! echo " $PROPS " | grep -q " $prop "; then continue; fi
  if ! git -C /repo apply --check $T/patch.diff 2>/dev/null; then echo "$id: patch no longer applies"; continue; fi
  git -C /repo apply $T/patch.diff
  ./check $prop > /tmp/reseed.out 2>&1; rc=$?
  git -C /repo checkout -- .
  grep -v "WARNING conda" /tmp/reseed.out | cut -c1-250 | tail -4 > /tmp/reseed.tail
  python3 - $T/meta.json $rc <<'PY'
import json, sys
m = json.load(open(sys.argv[1]))
out = open('/tmp/reseed.tail').read()
m['check_result'] = {'detected': 'VIOLATION' in out and sys.argv[2] == '1', 'exit': int(sys.argv[2]),
                     'replayed_on_real_code': 'VIOLATION' in out and any(l.startswith('VIOLATION') and not l.rstrip().endswith('no-failing-input-found') for l in open('/tmp/reseed.out')),
                     'output_tail': out[-900:]}
json.dump(m, open(sys.argv[1], 'w'), indent=1)
PY
  echo "$id: exit=$rc $(grep -c '^VIOLATION' /tmp/reseed.out) violation line(s)"
done
