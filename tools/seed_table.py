"""Prints the markdown table of seeded changes from seeded/*/meta.json (used to refresh DESIGN.md section 12.5)."""
import glob, json, os, re
V = os.path.dirname(os.path.dirname(os.path.abspath(__file__)))
rows = []
tot = det = und = 0
for f in sorted(glob.glob(os.path.join(V, 'seeded', '*', 'meta.json'))):
  m = json.load(open(f))
  sid = f.split('/')[-2]
  cr = m.get('check_result', {})
  tail = cr.get('output_tail', '')
  obs = re.findall(r'obligation=(\S+)', tail)
  obs = [o.split('/', 1)[1] if '/' in o else o for o in obs]
  tot += 1
  if cr.get('detected'):
    det += 1
    what = '`%s`' % obs[0][:110] + (' (+%d)' % (len(obs) - 1) if len(obs) > 1 else '')
    rep = 'yes' if cr.get('replayed_on_real_code') else 'no'
  elif cr.get('exit') == 2:
    und += 1
    what, rep = '**undecided (exit 2)**', '-'
  else:
    what, rep = '**missed**', '-'
  rows.append('| %s | %s | %s |' % (sid, what, rep))
print('| seed | reported by (first failed obligation) | replayed on the real code |')
print('|------|----------------------------------------|---------------------------|')
print('\n'.join(rows))
print('\n%d changes, %d reported as VIOLATION, %d undecided, %d missed' % (tot, det, und, tot - det - und))
