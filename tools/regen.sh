#!/bin/bash
# refresh evidence/*.json from clean runs of every claimed check (run before committing evidence)
cd /verif
git -C /repo status --short | grep -q . && { echo "repo dirty"; exit 1; }
for p in $(python3 -c "import json;print(' '.join(c['property_id'] for c in json.load(open('MANIFEST.json'))['checks']))"); do
  ./check $p --tier quick 2>&1 | tail -1 | cut -c1-160
done
