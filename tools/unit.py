"""Developer helper: run one verification unit in-process with timing (not part of the registered checks)."""
import sys, time, faulthandler
sys.path.insert(0, '/verif')
faulthandler.dump_traceback_later(int(sys.argv[2]) if len(sys.argv) > 2 else 60, exit=True)
from pyvc.run import load_registry
from pyvc.state import Ctx
from pyvc.verify import Exec
from pyvc import solve
repo, reg = load_registry()
name = sys.argv[1]
con = [c for c in reg.contracts if c.name == name][0]
ctx = Ctx(repo, reg, 'T/' + name)
ex = Exec(ctx)
t = time.time()
print(ex.verify_unit(con))
print('exec', round(time.time() - t, 2), 'obl', len(ctx.obligations), 'feas', ctx.feas_calls)
t = time.time()
for o in ctx.obligations:
  st, model, be, dt = solve.check(o.pc, o.goal, 20000, observe=ctx.observe)
  print(st, o.name, o.info.get('msg', ''), model if st == 'sat' else '', round(dt, 2))
print('solve', round(time.time() - t, 2))
