"""dbg4 <contract> <obligation substring>: for the first non-unsat matching obligation, minimise by trying subsets of pc."""
import sys, time
sys.path.insert(0, '/verif')
import z3
from pyvc.run import load_registry
from pyvc.state import Ctx
from pyvc.verify import Exec
repo, reg = load_registry()
name, pat = sys.argv[1], sys.argv[2]
con = [c for c in reg.contracts if c.name == name][0]
ctx = Ctx(repo, reg, 'T/' + name)
ex = Exec(ctx)
ex.verify_unit(con)
def chk(pc, goal, to=6000, mbqi=False):
  s = z3.Solver(); s.set('timeout', to); s.set('smt.mbqi', mbqi)
  s.add(*pc); s.add(z3.Not(goal))
  t = time.time(); r = s.check()
  return r, time.time() - t
for o in ctx.obligations:
  if pat in o.name:
    r, t = chk(o.pc, o.goal)
    if r == z3.unsat:
      continue
    print(o.name, r, '%.1fs' % t, len(o.pc), 'pc')
    print('mbqi:', chk(o.pc, o.goal, 20000, True))
    keys = sys.argv[3:]
    if keys:
      pc = [c for c in o.pc if any(k in str(c) for k in keys)]
      print('subset', len(pc), chk(pc, o.goal))
      print('GOAL', o.goal)
      for c in pc: print('  ', str(c)[:300].replace('\n', ' '))
    open('/tmp/ob.smt2', 'w').write(z3.Solver().__class__ and (lambda s: (s.add(*o.pc), s.add(z3.Not(o.goal)), s.to_smt2())[-1])(z3.Solver()))
    break
from pyvc import solve
for o in ctx.obligations:
  if pat in o.name and chk(o.pc, o.goal)[0] != z3.unsat:
    for sl in solve.slices(o.pc, z3.simplify(o.goal)):
      print('slice', len(sl), chk(sl, o.goal, 5000), chk(sl, o.goal, 5000, True))
    print('GOAL', z3.simplify(o.goal))
    for c in next(iter(solve.slices(o.pc, z3.simplify(o.goal)))): print('   S', str(z3.simplify(c)).replace('\n',' ')[:1500])
