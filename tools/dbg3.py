import sys
sys.path.insert(0, '/verif')
import z3
from pyvc.run import load_registry
from pyvc.state import Ctx
from pyvc.verify import Exec
repo, reg = load_registry()
name, pat = sys.argv[1], sys.argv[2]
con = [c for c in reg.contracts if c.name == name][0]
ctx = Ctx(repo, reg, 'T/' + name)
ex = Exec(ctx)
ex.verify_unit(con)
for o in ctx.obligations:
  if pat in o.name:
    _s = z3.Solver(); _s.add(*o.pc); _s.add(z3.Not(o.goal))
    _s.set("timeout",5000)
    if _s.check() == z3.unsat:
      continue
    print('GOAL', str(z3.simplify(o.goal))[:3000])
    for c in o.pc:
      print('PC  ', str(z3.simplify(c))[:400].replace('\n', ' '))
    break
