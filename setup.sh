#!/bin/sh
# Builds /verif/.venv offline: python 3.12 (from /venv) + z3-solver/cvc5/jsonschema from the local wheelhouse,
# with a .pth that exposes /venv's site-packages (attrs, yaml, ... = the repository's own deps).
set -e
cd "$(dirname "$0")"
if [ -x .venv/bin/python ] && .venv/bin/python -c "import z3, attr, jsonschema" 2>/dev/null; then
  echo "setup: .venv ok"; exit 0
fi
rm -rf .venv
/venv/bin/python -m venv .venv
PIP_NO_INDEX=1 .venv/bin/pip install -q --no-index --find-links /opt/veriftools/wheels z3-solver cvc5 jsonschema 2>&1 | tail -2
SP=$(.venv/bin/python -c "import sysconfig;print(sysconfig.get_paths()['purelib'])")
echo "import site; site.addsitedir('/venv/lib/python3.12/site-packages')" > "$SP/_repo_deps.pth"
.venv/bin/python -c "import z3, attr, jsonschema; print('setup: built', z3.get_version_string())"
