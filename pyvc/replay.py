"""Replay of counter-models on the real code.

A contract may register a replayer: fn(model: dict, obligation: dict) -> dict(reproduced=bool, ...).  The replayer builds
real Python objects from the model, runs the real function from /repo and evaluates the violated clause concretely.
Without a replayer (or when it does not reproduce) the VIOLATION line ends with no-failing-input-found and the replay
file carries the obligation and the solver's model.
"""
import json
import os
import re
import struct
import subprocess
import sys
import traceback

VERIF = os.path.dirname(os.path.dirname(os.path.abspath(__file__)))


def parse_val(text):
  """Decode the printed form of a Val-sorted model value into a Python value (best effort)."""
  if text is None:
    return None
  t = text.strip()
  if t == 'VN':
    return None
  m = re.match(r'^V([BIFSRTEC])\((.*)\)$', t, re.S)
  if not m:
    return parse_scalar(t)
  tag, body = m.group(1), m.group(2)
  if tag == 'B':
    return body == 'True'
  if tag in 'IRTC':
    return int(body)
  if tag == 'F':
    return parse_float(body)
  if tag == 'S':
    return parse_scalar(body)
  if tag == 'E':
    a, b = body.split(',')
    return ('enum', int(a), int(b))
  return t


def parse_float(body):
  b = body.strip()
  if b in ('NaN', 'nan'):
    return float('nan')
  if b in ('+oo', 'oo'):
    return float('inf')
  if b == '-oo':
    return float('-inf')
  if b in ('+0.0', '0.0'):
    return 0.0
  if b == '-0.0':
    return -0.0
  m = re.match(r'^(-?[0-9.]+)(?:\*\(2\*\*(-?\d+)\))?$', b)
  if m:
    from fractions import Fraction
    mant = Fraction(m.group(1))
    exp = int(m.group(2) or 0)
    return float(mant * (Fraction(2) ** exp))
  try:
    return float(b)
  except ValueError:
    return b


def parse_scalar(t):
  t = t.strip()
  if t in ('True', 'False'):
    return t == 'True'
  if re.match(r'^-?\d+$', t):
    return int(t)
  if t.startswith('"') and t.endswith('"'):
    s = t[1:-1].replace('""', '"')
    s = re.sub(r'\\u\{([0-9a-fA-F]+)\}', lambda m: chr(int(m.group(1), 16)), s)
    return s
  try:
    return parse_float(t)
  except Exception:
    return t


def decode_model(model):
  return {k: parse_val(v) for k, v in (model or {}).items()}


def write_replay(prop, ob, results, reg):
  d = os.path.join(VERIF, 'replays', prop)
  os.makedirs(d, exist_ok=True)
  name = re.sub(r'[^A-Za-z0-9_.-]+', '_', ob['name'])[:140]
  path = os.path.join(d, name + '.json')
  rec = {'property': prop, 'obligation': ob['name'], 'kind': ob['kind'], 'unit': ob.get('unit'), 'where': ob.get('where'),
         'info': ob.get('info'), 'solver': ob.get('backend'), 'solver_model': ob.get('model'),
         'decoded_model': None, 'reproduced': False, 'replay': None}
  try:
    rec['decoded_model'] = {k: repr(v) for k, v in decode_model(ob.get('model')).items()}
  except Exception:
    pass
  reproduced = False
  fn = getattr(reg, 'replayers', {}).get(ob.get('unit'))
  if fn is not None:
    try:
      out = fn(decode_model(ob.get('model')), ob)
      rec['replay'] = out
      reproduced = bool(out and out.get('reproduced'))
    except Exception:
      rec['replay'] = {'error': traceback.format_exc()[-1500:]}
  rec['reproduced'] = reproduced
  with open(path, 'w') as f:
    json.dump(rec, f, indent=1, default=str)
  return path, reproduced


def run_replay_file(path):
  with open(path) as f:
    rec = json.load(f)
  print(json.dumps({k: rec.get(k) for k in ('property', 'obligation', 'reproduced', 'decoded_model', 'replay')}, indent=1, default=str))
  sys.path.insert(0, VERIF)
  from pyvc.run import load_registry
  repo, reg = load_registry()
  fn = getattr(reg, 'replayers', {}).get(rec.get('unit'))
  if fn is None:
    print('no replayer for unit %s: the obligation above is the evidence (no-failing-input-found)' % rec.get('unit'))
    return 1
  model = {k: parse_val(v) for k, v in (rec.get('solver_model') or {}).items()}
  out = fn(model, rec)
  print('replayed now:', json.dumps(out, indent=1, default=str))
  return 1 if out.get('reproduced') else 0
