"""Discharging obligations: z3 first, cvc5 (SMT-LIB export) on unknown.  unsat = valid = discharged."""
import os
import subprocess
import tempfile
import time

import z3

Z3_TIMEOUT_MS = int(os.environ.get('PYVC_Z3_TIMEOUT_MS', '20000'))
CVC5_TIMEOUT_S = int(os.environ.get('PYVC_CVC5_TIMEOUT_S', '15'))
CVC5 = '/usr/bin/cvc5'
Z3CLI = '/usr/local/bin/z3-new' if os.path.exists('/usr/local/bin/z3-new') else '/usr/bin/z3'
EMATCH_TIMEOUT_MS = int(os.environ.get('PYVC_EMATCH_TIMEOUT_MS', '6000'))

# Quantifier instantiation by E-matching only in the in-process solver (fast, Boogie-style); an `unknown` is retried
# by the z3 CLI with model-based instantiation and by cvc5 on the exported SMT-LIB text.
z3.set_param('smt.mbqi', False)


def check(pc, goal, timeout_ms=None, want_model=True, observe=()):
  """Returns (status, model_dict|None, backend, seconds). status: 'unsat' | 'sat' | 'unknown'."""
  t0 = time.time()
  g = z3.simplify(goal)
  if z3.is_true(g):
    return 'unsat', None, 'trivial', 0.0
  pc = flatten(pc)
  pc, g = skolem_instances(pc, g)
  if any(z3.is_quantifier(c) for c in pc):
    # first from the quantifier-free hypotheses alone (including the instances just added): proving the goal from fewer
    # hypotheses is sound, and the quantified heap axioms are what makes the full query slow
    q = z3.Solver()
    q.set('timeout', 2000)
    q.set('random_seed', 7)
    for c in pc:
      if not z3.is_quantifier(c):
        q.add(c)
    q.add(z3.Not(g))
    if q.check() == z3.unsat:
      return 'unsat', None, 'z3-qf', time.time() - t0
  s = z3.Solver()
  s.set('timeout', min(EMATCH_TIMEOUT_MS, timeout_ms or Z3_TIMEOUT_MS))
  s.set('random_seed', 7)
  for c in pc:
    s.add(c)
  s.add(z3.Not(g))
  r = s.check()
  dt = time.time() - t0
  if r == z3.unsat:
    return 'unsat', None, 'z3', dt
  if r == z3.sat:
    model = None
    if want_model:
      model = model_dict(s.model())
      for label, term in observe:
        try:
          model[label] = str(s.model().eval(term, model_completion=True))
        except Exception:
          pass
    return 'sat', model, 'z3', dt
  # unknown: retry on slices of the hypotheses (proving the goal from fewer hypotheses is sound; a slice never
  # yields 'sat'), which keeps E-matching away from unrelated quantified heap axioms
  if len(pc) > 40:
    for sl in slices(pc, g):
      s2 = z3.Solver()
      s2.set('timeout', 3000)
      s2.set('random_seed', 7)
      for c in sl:
        s2.add(c)
      s2.add(z3.Not(g))
      if s2.check() == z3.unsat:
        return 'unsat', None, 'z3-sliced', time.time() - t0
  # then z3 with MBQI (CLI), then cvc5, on the exported problem
  st = cli_check(s, [Z3CLI if os.path.exists(Z3CLI) else 'z3', '-T:%d' % max(5, (timeout_ms or Z3_TIMEOUT_MS) // 1000), 'smt.mbqi=true'])
  if st in ('unsat', 'sat'):
    # MBQI only answers sat when its model satisfies the quantifiers; no model is extracted from the CLI run
    return st, ({} if st == 'sat' else None), 'z3-cli-mbqi', time.time() - t0
  st = cvc5_check(s)
  if st == 'unknown' and want_model:
    # undecided: a model of the quantifier-free hypotheses + the negated goal is only a CANDIDATE (it may violate a
    # quantified hypothesis); it is handed to the unit's replayer, and counts only if the real code reproduces it
    q = z3.Solver()
    q.set('timeout', 3000)
    for c in pc:
      if not z3.is_quantifier(c):
        q.add(c)
    q.add(z3.Not(g))
    if q.check() == z3.sat:
      cand = model_dict(q.model())
      for label, term in observe:
        try:
          cand[label] = str(q.model().eval(term, model_completion=True))
        except Exception:
          pass
      cand['$candidate'] = 'model of the quantifier-free hypotheses only'
      return 'unknown', cand, 'z3+cvc5', time.time() - t0
  return st, None, 'cvc5' if st != 'unknown' else 'z3+cvc5', time.time() - t0


_SK = [0]


def flatten(pc):
  """Top-level conjunctions split into their conjuncts (so that quantified conjuncts can be told from ground ones)."""
  out = []
  todo = list(reversed(list(pc)))
  while todo:
    c = todo.pop()
    if z3.is_and(c):
      todo.extend(reversed(c.children()))
    else:
      out.append(c)
  return out


def skolem_instances(pc, g):
  """A universally quantified integer goal  forall j. B(j)  is proved for a fresh constant sk; every hypothesis of the
  form  forall j. H(j)  over one integer (the shape forall_int produces) is additionally instantiated at sk.  Both steps
  are sound (instances of hypotheses; generalisation over a fresh constant) and spare the solver the E-matching."""
  if not (z3.is_quantifier(g) and g.is_forall() and g.num_vars() == 1):
    return pc, g
  srt = g.var_sort(0)
  _SK[0] += 1
  sk = z3.Const('sk!%d' % _SK[0], srt)
  body = z3.substitute_vars(g.body(), sk)
  extra = []

  def visit(h, depth):
    if z3.is_and(h) and depth < 3:
      for ch in h.children():
        visit(ch, depth + 1)
    elif z3.is_quantifier(h) and h.is_forall() and h.num_vars() == 1 and h.var_sort(0) == srt and \
        h.var_name(0).startswith(('q_', 'wf_')):
      extra.append(z3.substitute_vars(h.body(), sk))
  for c in pc:
    visit(c, 0)
  return list(pc) + extra, body


def symbols(t, cache):
  """Uninterpreted constant / function names occurring in a term."""
  k = t.get_id()
  if k in cache:
    return cache[k]
  out = set()
  seen = set()
  todo = [t]
  while todo:
    x = todo.pop()
    i = x.get_id()
    if i in seen:
      continue
    seen.add(i)
    if z3.is_quantifier(x):
      todo.append(x.body())
    elif z3.is_app(x):
      d = x.decl()
      if d.kind() == z3.Z3_OP_UNINTERPRETED:
        out.add(d.name())
      todo.extend(x.children())
  cache[k] = out
  return out


def slices(pc, goal):
  """Growing subsets of pc linked to the goal through shared symbols (symbols occurring in more than a quarter of the
  hypotheses do not link)."""
  cache = {}
  syms = [symbols(c, cache) for c in pc]
  freq = {}
  for ss in syms:
    for x in ss:
      freq[x] = freq.get(x, 0) + 1
  common = set(x for x, n in freq.items() if n > max(10, len(pc) // 4))
  front = symbols(goal, cache) - common
  chosen = set()
  last = -1
  for level in range(4):
    for i, ss in enumerate(syms):
      if i not in chosen and ss & front:
        chosen.add(i)
    for i in chosen:
      front |= (syms[i] - common)
    if len(chosen) == last or len(chosen) == len(pc):
      break
    last = len(chosen)
    yield [pc[i] for i in sorted(chosen)]


def cli_check(solver, cmd):
  try:
    text = solver.to_smt2()
  except Exception:
    return 'unknown'
  with tempfile.NamedTemporaryFile('w', suffix='.smt2', delete=False, dir=os.environ.get('PYVC_TMP', None)) as f:
    f.write(text)
    path = f.name
  try:
    p = subprocess.run(cmd + [path], capture_output=True, text=True, timeout=600)
    out = p.stdout.strip().splitlines()
    return out[0] if out and out[0] in ('unsat', 'sat') else 'unknown'
  except Exception:
    return 'unknown'
  finally:
    try:
      os.unlink(path)
    except OSError:
      pass


def model_dict(m):
  out = {}
  for d in m.decls():
    name = d.name()
    if d.arity() == 0 and (name.startswith('in_') or name.startswith('CONF_') or name.startswith('hv_')
                           or name.startswith('res!') or name.startswith('op_')):
      try:
        out[name] = str(m[d])
      except Exception:
        out[name] = '?'
  return out


def cvc5_check(solver):
  if not os.path.exists(CVC5):
    return 'unknown'
  try:
    text = solver.to_smt2()
  except Exception:
    return 'unknown'
  text = text.replace('(check-sat)', '(check-sat)\n')
  with tempfile.NamedTemporaryFile('w', suffix='.smt2', delete=False, dir=os.environ.get('PYVC_TMP', None)) as f:
    f.write('(set-logic ALL)\n' + text)
    path = f.name
  try:
    p = subprocess.run([CVC5, '--strings-exp', '--tlimit=%d' % (CVC5_TIMEOUT_S * 1000), path],
                       capture_output=True, text=True, timeout=CVC5_TIMEOUT_S + 10)
    out = p.stdout.strip().splitlines()
    if out and out[0] in ('unsat', 'sat'):
      return out[0] if out[0] == 'unsat' else 'unknown'   # a cvc5 'sat' without a replayable model stays undecided
    return 'unknown'
  except Exception:
    return 'unknown'
  finally:
    try:
      os.unlink(path)
    except OSError:
      pass


def discharge(obligations, timeout_ms=None, observe=()):
  unknown_by_name = {}
  for ob in obligations:
    if unknown_by_name.get(ob.name, 0) >= 2:
      # the same obligation (other paths) already exhausted every back end twice: do not spend the budget again
      ob.status, ob.model, ob.backend, ob.time = 'unknown', None, 'skipped-after-2-unknown', 0.0
      continue
    status, model, backend, dt = check(ob.pc, ob.goal, timeout_ms, observe=observe)
    if status == 'unknown':
      unknown_by_name[ob.name] = unknown_by_name.get(ob.name, 0) + 1
    ob.status, ob.model, ob.backend, ob.time = status, model, backend, dt
  return obligations


def satisfiable(pc, timeout_ms=5000):
  s = z3.Solver()
  s.set('timeout', timeout_ms)
  for c in pc:
    s.add(c)
  return s.check()
