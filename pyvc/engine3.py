"""Symbolic executor: call dispatch, parameter binding, instantiation, statements, loops."""
import ast

import z3

from pyvc import values as vv
from pyvc.values import (Val, V, VNone, NONE, VBool, VInt, VFloat, VStr, VBytes, VEnum, VRef, VVal, VTuple,
                         VClass, VCallable, VOpaque, VFunc, VBuiltin, VModule, VSuper, Raised, Unsupported,
                         fresh, Kind, parse_kind)
from pyvc.loader import ClassInfo, EnumInfo, FuncInfo, BUILTIN_EXC, builtin_exc_is_sub
from pyvc.ops import VTypeSym
from pyvc.state import Obligation
from pyvc.engine import VPyDict, VGen, MAX_INLINE_DEPTH


class VIterView(V):
  """dict.items()/values()/keys()/enumerate()/zip()/reversed() views kept symbolic until iterated."""
  pyonly = True

  def __init__(self, how, base, extra=None):
    self.how = how
    self.base = base
    self.extra = extra


class VCtxMgr(V):
  pyonly = True

  def __init__(self, finfo, args, kwargs, closure=None):
    self.finfo = finfo
    self.args = args
    self.kwargs = kwargs
    self.closure = closure


class CallMixin(object):

  # ------------------------------------------------------------------ call dispatch
  def call(self, st, fn, pos, kwargs, node=None):
    if isinstance(fn, VFunc):
      args = ([fn.bound] if fn.bound is not None else []) + list(pos)
      return self.call_function(st, fn.finfo, args, kwargs, closure=fn.closure)
    if isinstance(fn, VBuiltin):
      args = ([fn.bound] if fn.bound is not None else []) + list(pos)
      return fn.impl(self, st, args, kwargs)
    if isinstance(fn, VClass):
      return self.instantiate(st, fn.cls, pos, kwargs)
    if isinstance(fn, VCallable):
      return self.call_opaque(st, fn, pos, kwargs)
    if isinstance(fn, VTypeSym):
      out = []
      for s, t in self.resolve_type(st, fn):
        out.extend(self.call(s, t, pos, kwargs, node))
      return out
    if isinstance(fn, VVal):
      out = []
      for s, t in self.resolve(st, fn):
        out.extend(self.call(s, t, pos, kwargs, node))
      return out
    if isinstance(fn, VRef) and isinstance(fn.cls, ClassInfo):
      m = fn.cls.find_method('__call__')
      if m is not None:
        return self.call_function(st, m, [fn] + list(pos), kwargs)
    if isinstance(fn, VNone):
      self.safety(st, z3.BoolVal(False), 'call', "'NoneType' object is not callable", node)
      return []
    raise Unsupported('call of %r' % (fn,))

  def call_opaque(self, st, fn, pos, kwargs):
    """User callable: uninterpreted; behaviour described by registry.opaque[label] (returns kind, may_raise, pure)."""
    if fn.nullable:
      self.safety(st, fn.t != 0, 'call', "'NoneType' object is not callable")
    spec = self.ctx.registry.opaque_spec(fn.label)
    self.ctx.use_trusted('opaque:' + fn.label)
    return spec(self, st, fn, pos, kwargs)

  # ------------------------------------------------------------------ repo function call
  def call_function(self, st, finfo, args, kwargs, closure=None):
    con = self.ctx.registry.contract_for(finfo)
    if con is not None and (self.call_stack or self.spec_mode) and not (self.spec_mode and con.pure_inline):
      if not (self.unit_contract is con and not self.call_stack):
        return self.apply_contract(st, con, finfo, args, kwargs)
    if finfo.is_contextmanager:
      return [(st, VCtxMgr(finfo, args, kwargs, closure))]
    if _has_yield(finfo.node) and not (con is not None and con.coroutine_ and self.unit_contract is con and not self.call_stack):
      raise Unsupported('generator function %s (needs a contract)' % finfo.qualname)
    for d in finfo.decorators:
      if d not in ('property', 'staticmethod', 'classmethod', 'abc.abstractmethod', 'abc.abstractproperty',
                   'contextlib.contextmanager', 'functools.cached_property') and not d.endswith('.setter'):
        self.ctx.use_trusted('decorator ignored: @%s' % d.split('(')[0])
    if len(self.call_stack) >= MAX_INLINE_DEPTH or self.call_stack.count(finfo) >= 2:
      raise Unsupported('inline depth / recursion at %s' % finfo.qualname)
    self.ctx.inlined.add('%s::%s' % (finfo.module.name if finfo.module else '?', finfo.qualname))
    caller_env = st.env
    env = self.bind_params(st, finfo, args, kwargs, closure)
    st.env = env
    self.call_stack.append(finfo)
    saved_func, saved_node = self.cur_func, self.cur_node
    self.cur_func = finfo
    try:
      node = finfo.node
      if isinstance(node, ast.Lambda):
        results = [(s, ('return', v)) if not isinstance(v, Raised) else (s, ('raise', v.exc))
                   for s, v in self.eval(st, node.body)]
      else:
        results = self.exec_block(st, node.body)
    finally:
      self.call_stack.pop()
      self.cur_func, self.cur_node = saved_func, saved_node
    out = []
    for s, ctl in results:
      s.env = dict(caller_env) if len(results) > 1 else caller_env
      if ctl is None:
        out.append((s, NONE))
      elif ctl[0] == 'return':
        out.append((s, ctl[1]))
      elif ctl[0] == 'raise':
        out.append((s, Raised(ctl[1])))
      else:
        raise Unsupported('break/continue escaping function')
    return out

  def bind_params(self, st, finfo, args, kwargs, closure=None):
    a = finfo.node.args
    env = {'$module': finfo.module, '$closure': closure, '$func': finfo}
    kwargs = dict(kwargs)
    params = [p.arg for p in a.posonlyargs + a.args]
    defaults = [None] * (len(params) - len(a.defaults)) + list(a.defaults)
    args = list(args)
    for i, name in enumerate(params):
      if i < len(args):
        env[name] = args[i]
        if name in kwargs:
          raise Unsupported('multiple values for argument %s' % name)
      elif name in kwargs:
        env[name] = kwargs.pop(name)
      elif defaults[i] is not None:
        env[name] = self.eval_default(st, finfo, defaults[i], closure)
      else:
        raise Unsupported('missing argument %s calling %s' % (name, finfo.qualname))
    extra = args[len(params):]
    if a.vararg:
      env[a.vararg.arg] = VTuple(extra)
    elif extra:
      raise Unsupported('too many positional arguments calling %s' % finfo.qualname)
    for p, d in zip(a.kwonlyargs, a.kw_defaults):
      if p.arg in kwargs:
        env[p.arg] = kwargs.pop(p.arg)
      elif d is not None:
        env[p.arg] = self.eval_default(st, finfo, d, closure)
      else:
        raise Unsupported('missing kw-only argument %s' % p.arg)
    if a.kwarg:
      if '$kwargs' in kwargs:
        if len(kwargs) > 1:
          raise Unsupported('mix of explicit and symbolic **kwargs')
        env[a.kwarg.arg] = kwargs.pop('$kwargs')
      else:
        env[a.kwarg.arg] = VPyDict(kwargs)
        kwargs = {}
    if kwargs:
      raise Unsupported('unexpected keyword arguments %r calling %s' % (sorted(kwargs), finfo.qualname))
    return env

  def eval_default(self, st, finfo, expr, closure):
    saved = st.env
    st.env = {'$module': finfo.module, '$closure': closure}
    try:
      rs = self.eval(st, expr)
    finally:
      st.env = saved
    if len(rs) != 1 or isinstance(rs[0][1], Raised):
      raise Unsupported('default value needs forking')
    return rs[0][1]

  # ------------------------------------------------------------------ instantiation
  def instantiate(self, st, cls, pos, kwargs):
    if isinstance(cls, EnumInfo):
      # Enum(value) lookup
      if len(pos) == 1:
        vals = [self.eval_module_const(st, cls.module, e) for _, e in cls.members]
        v = pos[0]
        if all(isinstance(x, VInt) for x in vals) and vv.as_intlike(v) is not None:
          iv = vv.as_intlike(v)
          t = z3.IntVal(-1)
          for i in range(len(vals) - 1, -1, -1):
            t = z3.If(iv == vals[i].t, z3.IntVal(i), t)
          self.safety(st, t >= 0, 'enum', 'not a valid %s' % cls.name)
          return [(st, VEnum(cls, t))]
      raise Unsupported('enum construction')
    if isinstance(cls, str):
      return self.builtin_construct(st, cls, pos, kwargs)
    con = self.ctx.registry.ctor_contract(cls)
    if con is not None and self.call_stack:
      return self.apply_contract(st, con, con.finfo, [None] + list(pos), kwargs, ctor_cls=cls)
    obj = self.alloc(st, cls)
    init = cls.find_method('__init__')
    if init is not None:
      out = []
      for s, r in self.call_function(st, init, [obj] + list(pos), kwargs):
        out.append((s, r if isinstance(r, Raised) else obj))
      return out
    if cls.is_attrs or any(c.is_attrs for c in cls.mro()):
      return self.attrs_init(st, cls, obj, pos, kwargs)
    nt = [c.namedtuple_fields for c in cls.mro() if c.namedtuple_fields]
    if nt:
      fields = nt[0]
      vals = list(pos) + [kwargs[f] for f in fields[len(pos):] if f in kwargs]
      if len(vals) != len(fields):
        return [(st, self.raise_builtin(st, 'TypeError', 'namedtuple arity'))]
      for f, v in zip(fields, vals):
        self.write_field(st, obj, f, v)
      return [(st, obj)]
    if cls.is_exception():
      st.pyheap[(self.oid_of(obj), 'args')] = VTuple(pos)
      return [(st, obj)]
    if pos or kwargs:
      raise Unsupported('constructor arguments for %s without __init__' % cls.name)
    return [(st, obj)]

  def attrs_init(self, st, cls, obj, pos, kwargs):
    fields = cls.all_attrs_fields()
    kwargs = dict(kwargs)
    pos = list(pos)
    saved_env = st.env
    marker = obj.t
    for (name, default, factory, init) in fields:
      pname = name.lstrip('_')
      if init and pos:
        v = pos.pop(0)
      elif init and pname in kwargs:
        v = kwargs.pop(pname)
      elif default is not None:
        v = self.eval_module_const(st, cls.module, default)
      elif factory is not None:
        f = self.eval_module_const(st, cls.module, factory)
        rs = self.call(st, f, [], {})
        if len(rs) != 1 or isinstance(rs[0][1], Raised):
          raise Unsupported('attrs factory forking')
        v = rs[0][1]
      else:
        raise Unsupported('attrs: missing value for %s.%s' % (cls.name, name))
      self.write_field(st, obj, name, v)
    if pos or kwargs:
      raise Unsupported('attrs: unexpected arguments for %s: %r' % (cls.name, sorted(kwargs)))
    post = cls.find_method('__attrs_post_init__')
    if post is not None:
      out = []
      for s, r in self.call_function(st, post, [obj], {}):
        out.append((s, r if isinstance(r, Raised) else obj))
      return out
    return [(st, obj)]


def _has_yield(node):
  for n in ast.walk(node):
    if isinstance(n, (ast.Yield, ast.YieldFrom)):
      # yields inside nested defs/lambdas do not count
      return _yield_owner(node, n)
  return False


def _yield_owner(func, target):
  def visit(n):
    for ch in ast.iter_child_nodes(n):
      if ch is target:
        return True
      if isinstance(ch, (ast.FunctionDef, ast.Lambda, ast.AsyncFunctionDef)):
        continue
      if visit(ch):
        return True
    return False
  return visit(func)


class StmtMixin(object):

  # ------------------------------------------------------------------ blocks
  def exec_block(self, st, stmts):
    """[(state, ctl)] with ctl None | ('return', V) | ('raise', exc) | ('break',) | ('continue',)."""
    results = [(st, None)]
    for stmt in stmts:
      nxt = []
      for s, ctl in results:
        if ctl is not None:
          nxt.append((s, ctl))
        else:
          nxt.extend(self.exec_stmt(s, stmt))
      results = nxt
      if len(results) > self.ctx.opts.get('max_paths', 4000):
        raise Unsupported('path explosion (> %d paths)' % self.ctx.opts.get('max_paths', 4000))
    return results

  def exec_stmt(self, st, stmt):
    self.cur_node = stmt
    con = self.unit_contract
    if con is not None and con.coroutine_ and len(self.call_stack) == 1 and not self.spec_mode and \
        isinstance(stmt, (ast.Expr, ast.Assign, ast.AugAssign)) and isinstance(stmt.value, ast.Yield):
      # a suspension point of the generator under verification: cut before the statement (its only pre-yield work is
      # loading local names, checked below), resume with an arbitrary sent value
      if stmt.value.value is not None and not isinstance(stmt.value.value, (ast.Constant, ast.Name)):
        raise Unsupported('coroutine yields a computed value')
      targets = [stmt.target] if isinstance(stmt, ast.AugAssign) else (stmt.targets if isinstance(stmt, ast.Assign) else [])
      if not all(isinstance(t, ast.Name) for t in targets):
        raise Unsupported('coroutine: yield assigned to a non-local target')
      if not self.co_suspend(st):
        return []
    m = getattr(self, 's_' + type(stmt).__name__, None)
    if m is None:
      raise Unsupported('statement %s' % type(stmt).__name__)
    return m(st, stmt)

  def ctl_of(self, results, fn=None):
    """Turn expression results into statement results."""
    out = []
    for s, v in results:
      if isinstance(v, Raised):
        out.append((s, ('raise', v.exc)))
      elif fn is None:
        out.append((s, None))
      else:
        out.extend(fn(s, v))
    return out

  def s_Expr(self, st, stmt):
    if isinstance(stmt.value, ast.Yield) and self.unit_contract is not None and self.unit_contract.coroutine_ and len(self.call_stack) == 1:
      return self.ctl_of(self.eval(st, stmt.value))
    if isinstance(stmt.value, ast.Yield):
      return self.do_yield(st, stmt.value)
    if isinstance(stmt.value, ast.Constant):
      return [(st, None)]
    return self.ctl_of(self.eval(st, stmt.value))

  def s_Pass(self, st, stmt):
    return [(st, None)]

  def s_Global(self, st, stmt):
    return [(st, None)]

  def s_Nonlocal(self, st, stmt):
    raise Unsupported('nonlocal')

  def s_Import(self, st, stmt):
    for a in stmt.names:
      st.env[a.asname or a.name.split('.')[0]] = VModule(a.name if a.asname else a.name.split('.')[0])
    return [(st, None)]

  def s_ImportFrom(self, st, stmt):
    for a in stmt.names:
      full = (stmt.module or '') + '.' + a.name
      if self.ctx.repo.is_repo_module(full):
        st.env[a.asname or a.name] = VModule(full)
      elif self.ctx.repo.is_repo_module(stmt.module or ''):
        st.env[a.asname or a.name] = self.module_global(st, self.ctx.repo.module(stmt.module), a.name)
      else:
        st.env[a.asname or a.name] = self.external(full)
    return [(st, None)]

  def s_Return(self, st, stmt):
    if stmt.value is None:
      return [(st, ('return', NONE))]
    return self.ctl_of(self.eval(st, stmt.value), lambda s, v: [(s, ('return', v))])

  def s_Break(self, st, stmt):
    return [(st, ('break',))]

  def s_Continue(self, st, stmt):
    return [(st, ('continue',))]

  def s_FunctionDef(self, st, stmt):
    fi = FuncInfo(st.env.get('$module'), stmt.name, stmt)
    st.env[stmt.name] = VFunc(fi, closure=st.env)
    return [(st, None)]

  def s_Assign(self, st, stmt):
    def fin(s, v):
      results = [(s, None)]
      for tgt in stmt.targets:
        nxt = []
        for s2, ctl in results:
          if ctl is not None:
            nxt.append((s2, ctl))
          else:
            nxt.extend(self.assign(s2, tgt, v))
        results = nxt
      return results
    return self.ctl_of(self.eval(st, stmt.value), fin)

  def s_AnnAssign(self, st, stmt):
    if stmt.value is None:
      return [(st, None)]
    return self.ctl_of(self.eval(st, stmt.value), lambda s, v: self.assign(s, stmt.target, v))

  def s_AugAssign(self, st, stmt):
    from pyvc.engine import BINOPS
    op = BINOPS[type(stmt.op).__name__]
    load = _as_load(stmt.target)
    def fin(s, vals):
      cur, rhs = vals
      if op == '+' and isinstance(cur, VRef) and cur.cls == 'list':
        for x in self.iter_values(s, rhs):
          self.list_append(s, cur, x)
        return [(s, None)]
      out = []
      for s2, r in self.arith(s, op, cur, rhs):
        if isinstance(r, Raised):
          out.append((s2, ('raise', r.exc)))
        else:
          out.extend(self.assign(s2, stmt.target, r))
      return out
    return self.ctl_of(self.eval_list(st, [load, stmt.value]), fin)

  def assign(self, st, tgt, v):
    """[(state, ctl)]"""
    if isinstance(tgt, ast.Name):
      st.env[tgt.id] = v
      return [(st, None)]
    if isinstance(tgt, ast.Attribute):
      def fin(s, obj):
        return [(s2, ('raise', r.exc) if isinstance(r, Raised) else None) for s2, r in self.setattr(s, obj, tgt.attr, v, tgt)]
      return self.ctl_of(self.eval(st, tgt.value), fin)
    if isinstance(tgt, ast.Subscript):
      def fin(s, vals):
        return [(s2, ('raise', r.exc) if isinstance(r, Raised) else None)
                for s2, r in self.store_subscript(s, vals[0], vals[1], v, tgt)]
      return self.ctl_of(self.eval_list(st, [tgt.value, tgt.slice]), fin)
    if isinstance(tgt, (ast.Tuple, ast.List)) and isinstance(v, VRef) and v.cls in ('list', 'tuple') and \
        'ValueError' in self.implicit_opt_in() and not getattr(self, '_in_unpack', False):
      # the contract opted in: a wrong number of values is the ValueError Python raises, not a safety failure
      out = []
      for s, ok in self.branch(st, self.list_len(st, v) == len(tgt.elts)):
        if not ok:
          out.append((s, ('raise', self.raise_builtin(s, 'ValueError', 'unpack').exc)))
          continue
        self._in_unpack = True
        try:
          out.extend(self.assign(s, tgt, v))
        finally:
          self._in_unpack = False
      return out
    if isinstance(tgt, (ast.Tuple, ast.List)):
      items = self.unpack(st, v, len(tgt.elts), tgt)
      if isinstance(items, Raised):
        return [(st, ('raise', items.exc))]
      results = [(st, None)]
      for t, x in zip(tgt.elts, items):
        nxt = []
        for s2, ctl in results:
          if ctl is not None:
            nxt.append((s2, ctl))
          else:
            nxt.extend(self.assign(s2, t, x))
        results = nxt
      return results
    raise Unsupported('assignment target %s' % type(tgt).__name__)

  def unpack(self, st, v, n, node):
    if isinstance(v, VTuple):
      items = v.items
    elif isinstance(v, VRef) and v.cls in ('list', 'tuple'):
      ln = self.list_len(st, v)
      self.safety(st, ln == n, 'unpack', 'unpacking arity', node)
      return [self.list_get(st, v, z3.IntVal(i)) for i in range(n)]
    else:
      raise Unsupported('unpack of %r' % (v,))
    if len(items) != n:
      self.safety(st, z3.BoolVal(False), 'unpack', 'expected %d values to unpack, got %d' % (n, len(items)), node)
      return self.raise_builtin(st, 'ValueError', 'unpack')
    return items

  def s_Delete(self, st, stmt):
    results = [(st, None)]
    for tgt in stmt.targets:
      nxt = []
      for s, ctl in results:
        if ctl is not None:
          nxt.append((s, ctl))
          continue
        if isinstance(tgt, ast.Name):
          s.env.pop(tgt.id, None)
          nxt.append((s, None))
        elif isinstance(tgt, ast.Subscript):
          def fin(s2, vals):
            d, k = vals
            if isinstance(d, VRef) and d.cls == 'dict':
              self.safety(s2, self.dict_has(s2, d, k), 'key', 'KeyError in del', tgt)
              self.dict_delete(s2, d, k)
              return [(s2, None)]
            raise Unsupported('del on %r' % (d,))
          nxt.extend(self.ctl_of(self.eval_list(s, [tgt.value, tgt.slice]), fin))
        else:
          raise Unsupported('del target')
      results = nxt
    return results

  def s_If(self, st, stmt):
    def fin(s, c):
      out = []
      for s2, b in self.truth_branch(s, c):
        out.extend(self.exec_block(s2, stmt.body if b else stmt.orelse))
      return out
    return self.ctl_of(self.eval(st, stmt.test), fin)

  def s_Assert(self, st, stmt):
    def fin(s, c):
      out = []
      for s2, b in self.truth_branch(s, c):
        if b:
          out.append((s2, None))
        else:
          out.append((s2, ('raise', self.raise_builtin(s2, 'AssertionError', 'assert').exc)))
      return out
    return self.ctl_of(self.eval(st, stmt.test), fin)

  def s_Raise(self, st, stmt):
    if stmt.exc is None:
      if not st.exc_stack:
        raise Unsupported('bare raise outside handler')
      return [(st, ('raise', st.exc_stack[-1]))]
    def fin(s, v):
      if isinstance(v, VClass):
        return self.ctl_of(self.instantiate(s, v.cls, [], {}), lambda s2, o: [(s2, ('raise', o))])
      if isinstance(v, VRef):
        return [(s, ('raise', v))]
      raise Unsupported('raise of %r' % (v,))
    return self.ctl_of(self.eval(st, stmt.exc), fin)

  # ------------------------------------------------------------------ try
  def s_Try(self, st, stmt):
    results = self.exec_block(st, stmt.body)
    after = []
    for s, ctl in results:
      if ctl is None:
        after.extend(self.exec_block(s, stmt.orelse) if stmt.orelse else [(s, None)])
      elif ctl[0] == 'raise' and stmt.handlers:
        after.extend(self.match_handlers(s, ctl[1], stmt.handlers, 0))
      else:
        after.append((s, ctl))
    if not stmt.finalbody:
      return after
    out = []
    for s, ctl in after:
      for s2, fctl in self.exec_block(s, stmt.finalbody):
        out.append((s2, fctl if fctl is not None else ctl))
    return out

  def match_handlers(self, st, exc, handlers, idx):
    if idx >= len(handlers):
      return [(st, ('raise', exc))]
    h = handlers[idx]
    if h.type is None:
      return self.run_handler(st, exc, h)
    out = []
    for s, tv in self.eval(st, h.type):
      if isinstance(tv, Raised):
        out.append((s, ('raise', tv.exc)))
        continue
      cond = self.isinstance_term(s, exc, tv)
      for s2, b in self.branch(s, cond):
        if b:
          out.extend(self.run_handler(s2, exc, h))
        else:
          out.extend(self.match_handlers(s2, exc, handlers, idx + 1))
    return out

  def run_handler(self, st, exc, h):
    if h.name:
      st.env[h.name] = exc
    st.exc_stack = st.exc_stack + (exc,)
    out = []
    for s, ctl in self.exec_block(st, h.body):
      s.exc_stack = s.exc_stack[:-1]
      out.append((s, ctl))
    return out

  # ------------------------------------------------------------------ with
  def s_With(self, st, stmt):
    return self.with_items(st, stmt.items, stmt.body)

  def with_items(self, st, items, body):
    if not items:
      return self.exec_block(st, body)
    item = items[0]
    def fin(s, cm):
      return self.enter_cm(s, cm, item.optional_vars, lambda s2: self.with_items(s2, items[1:], body))
    return self.ctl_of(self.eval(st, item.context_expr), fin)

  def enter_cm(self, st, cm, target, run_body):
    """Execute `with cm as target: body`; run_body(state) -> [(state, ctl)] runs the body in the caller env."""
    if isinstance(cm, VCtxMgr):
      return self.with_generator(st, cm, target, run_body)
    if isinstance(cm, VRef) and cm.cls in ('lock', 'rlock'):
      return self.with_lock(st, cm, target, run_body)
    if isinstance(cm, VRef) and isinstance(cm.cls, ClassInfo):
      enter, exit_ = cm.cls.find_method('__enter__'), cm.cls.find_method('__exit__')
      if enter is not None and exit_ is not None:
        out = []
        for s, r in self.call_function(st, enter, [cm], {}):
          if isinstance(r, Raised):
            out.append((s, ('raise', r.exc)))
            continue
          if target is not None:
            for s1, c1 in self.assign(s, target, r):
              if c1 is not None:
                raise Unsupported('with-target assignment raising')
          for s2, ctl in run_body(s):
            if ctl is not None and ctl[0] == 'raise':
              exc = ctl[1]
              args = [cm, VClass(self.exc_class_of(exc)), exc, NONE]
            else:
              args = [cm, NONE, NONE, NONE]
            for s3, xr in self.call_function(s2, exit_, args, {}):
              if isinstance(xr, Raised):
                out.append((s3, ('raise', xr.exc)))
              elif ctl is not None and ctl[0] == 'raise':
                for s4, b in self.truth_branch(s3, xr):
                  out.append((s4, None if b else ctl))
              else:
                out.append((s3, ctl))
        return out
    tm = self.ctx.registry.trusted_cm(cm)
    if tm is not None:
      return tm(self, st, cm, target, run_body)
    raise Unsupported('with on %r' % (cm,))

  def with_lock(self, st, lock, target, run_body):
    name = self.lock_name(st, lock)
    reentrant = lock.cls == 'rlock'
    if name in st.locks and not reentrant:
      self.ctx.obligations.append(Obligation('%s/lock.self_deadlock@%s' % (self.ctx.unit, name), 'lock', st.pc,
                                             z3.BoolVal(False), '', {'msg': 'non-reentrant lock acquired twice'}))
    held_before = st.locks
    st.locks = st.locks + (name,)
    self.on_acquire(st, lock, name)
    out = []
    for s, ctl in run_body(st):
      self.on_release(s, lock, name)
      s.locks = held_before
      out.append((s, ctl))
    return out

  def lock_name(self, st, lock):
    oid = self.oid_of(lock)
    return st.pyheap.get((oid, '$lockname'), VStr('lock%s' % oid)).t.as_string() if oid is not None else str(lock.t)

  def on_acquire(self, st, lock, name):
    self.event(st, ('acquire', name))

  def on_release(self, st, lock, name):
    self.event(st, ('release', name))

  def event(self, st, ev):
    """Append to the path's ghost event trace (python-side; concrete per path)."""
    st.ghost['$trace'] = st.ghost.get('$trace', ()) + (ev,)

  def with_generator(self, st, cm, target, run_body):
    finfo = cm.finfo
    caller_env = st.env
    env = self.bind_params(st, finfo, cm.args, cm.kwargs, cm.closure)
    env['$with'] = (target, run_body, caller_env)
    st.env = env
    self.call_stack.append(finfo)
    saved_func = self.cur_func
    self.cur_func = finfo
    try:
      results = self.exec_block(st, finfo.node.body)
    finally:
      self.call_stack.pop()
      self.cur_func = saved_func
    out = []
    for s, ctl in results:
      w = s.env.get('$with')
      pending = s.env.get('$with_pending')
      s.env = w[2] if w is not None else caller_env
      if ctl is not None and ctl[0] == 'raise':
        out.append((s, ctl))
      elif w is not None and len(w) == 3:
        raise Unsupported("context manager generator didn't yield")
      else:
        out.append((s, pending))
    return out

  def do_yield(self, st, ynode):
    w = st.env.get('$with')
    if w is None or len(w) != 3:
      raise Unsupported('yield outside a modelled context manager')
    target, run_body, caller_env = w
    if ynode.value is not None:
      rs = self.eval(st, ynode.value)
    else:
      rs = [(st, NONE)]
    out = []
    for s, v in rs:
      if isinstance(v, Raised):
        out.append((s, ('raise', v.exc)))
        continue
      cm_env = s.env
      s.env = dict(caller_env)
      if target is not None:
        for s1, c1 in self.assign(s, target, v):
          pass
      saved_stack, saved_func = self.call_stack, self.cur_func
      # the body belongs to the caller's frame
      self.call_stack = self.call_stack[:-1]
      self.cur_func = self.call_stack[-1] if self.call_stack else self.unit_func
      try:
        body_results = run_body(s)
      finally:
        self.call_stack, self.cur_func = saved_stack, saved_func
      for s2, ctl in body_results:
        new_caller_env = s2.env
        e2 = dict(cm_env)
        e2['$with'] = (target, run_body, new_caller_env, 'done')
        s2.env = e2
        if ctl is not None and ctl[0] == 'raise':
          out.append((s2, ctl))
        else:
          e2['$with_pending'] = ctl
          out.append((s2, None))
    return out

  # ------------------------------------------------------------------ loops
  def loop_spec(self, stmt):
    key = self.loop_key(stmt)
    specs = self.ctx.opts.get('loops', {})
    for k, v in specs.items():
      fn, header = k
      if header == key and (fn is None or (self.cur_func is not None and self.cur_func.qualname.endswith(fn))):
        return v
    return None

  def loop_key(self, stmt):
    if isinstance(stmt, ast.For):
      return 'for %s in %s' % (ast.unparse(stmt.target), ' '.join(ast.unparse(stmt.iter).split()))
    return 'while %s' % ' '.join(ast.unparse(stmt.test).split())

  def s_For(self, st, stmt):
    def fin(s, it):
      spec = self.loop_spec(stmt)
      if spec is None:
        seq = self.concrete_iter(s, it)
        if seq is not None:
          return self.unrolled_for(s, stmt, seq, 0)
        bound = getattr(self.ctx, 'bounded_lists', None)
        if bound is not None:
          return self.bounded_for(s, stmt, it, bound)
        raise Unsupported('loop `%s` over a symbolic iterable needs an invariant' % self.loop_key(stmt))
      return self.for_with_invariant(s, stmt, it, spec)
    return self.ctl_of(self.eval(st, stmt.iter), fin)

  def bounded_for(self, st, stmt, it, bound):
    """BOUNDED stand-in (never counted as proof): a loop without invariant over a symbolic sequence is unrolled for every
    length 0..bound; longer sequences are not explored."""
    rev = False
    if isinstance(it, VIterView) and it.how == 'reversed':
      rev, it = True, it.base
    seq, elem_of = self.iter_as_list(st, it)
    n = self.list_len(st, seq)
    self.ctx.bounded_notes = getattr(self.ctx, 'bounded_notes', [])
    self.ctx.bounded_notes.append('loop `%s`: sequences of length <= %d only' % (self.loop_key(stmt), bound))
    out = []
    for k in range(bound + 1):
      s = st.fork()
      s.assume(n == k)
      if not self.feasible(s):
        continue
      items = [elem_of(s, z3.IntVal(i)) for i in range(k)]
      if rev:
        items.reverse()
      out.extend(self.unrolled_for(s, stmt, items, 0))
    return out

  def concrete_iter(self, st, it):
    """Python list of element values when the iterable has concrete length, else None."""
    try:
      if isinstance(it, VIterView):
        return self.view_values(st, it)
      if isinstance(it, VGen):
        return None
      return self.iter_values(st, it)
    except Unsupported:
      return None

  def unrolled_for(self, st, stmt, seq, idx):
    if idx >= len(seq):
      return self.exec_block(st, stmt.orelse) if stmt.orelse else [(st, None)]
    out = []
    for s, c in self.assign(st, stmt.target, seq[idx]):
      if c is not None:
        out.append((s, c))
        continue
      for s2, ctl in self.exec_block(s, stmt.body):
        if ctl is None or ctl[0] == 'continue':
          out.extend(self.unrolled_for(s2, stmt, seq, idx + 1))
        elif ctl[0] == 'break':
          out.append((s2, None))
        else:
          out.append((s2, ctl))
    return out

  def s_While(self, st, stmt):
    spec = self.loop_spec(stmt)
    if spec is None:
      return self.unrolled_while(st, stmt, 0)
    return self.while_with_invariant(st, stmt, spec)

  def unrolled_while(self, st, stmt, n):
    if n > self.ctx.opts.get('max_unroll', 16):
      raise Unsupported('loop `%s` needs an invariant (unrolling limit)' % self.loop_key(stmt))
    def fin(s, c):
      out = []
      for s2, b in self.truth_branch(s, c):
        if not b:
          out.extend(self.exec_block(s2, stmt.orelse) if stmt.orelse else [(s2, None)])
          continue
        for s3, ctl in self.exec_block(s2, stmt.body):
          if ctl is None or ctl[0] == 'continue':
            out.extend(self.unrolled_while(s3, stmt, n + 1))
          elif ctl[0] == 'break':
            out.append((s3, None))
          else:
            out.append((s3, ctl))
      return out
    return self.ctl_of(self.eval(st, stmt.test), fin)


def _as_load(node):
  import copy
  n = copy.deepcopy(node)
  for x in ast.walk(n):
    if hasattr(x, 'ctx'):
      x.ctx = ast.Load()
  return n
