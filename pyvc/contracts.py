"""Contract objects and the registry of sidecar contracts / shapes / trusted specs."""
import ast

from pyvc.values import parse_kind, Kind, Unsupported
from pyvc.loader import ClassInfo, EnumInfo


class Contract(object):

  def __init__(self, registry, path, qualname, props=(), name=None):
    self.registry = registry
    self.path = path
    self.qualname = qualname
    self.name = name or qualname
    self.props = tuple(props)
    self.finfo = None
    self.params = {}          # name -> Kind
    self.param_cls = {}
    self.requires_ = []       # (name, expr)
    self.ensures_ = []        # (name, expr)
    self.raises_ = []         # (exc class name, when expr|None, [(name, expr)])
    self.modifies_ = None     # None: unrestricted; list of patterns
    self.returns_ = None      # Kind
    self.loops_ = {}
    self.opts = {}
    self.pure_inline = False
    self.verify = True        # False: contract is only assumed at call sites (trusted) — listed in evidence
    self.trusted_reason = None
    self.ghost_const = set()
    self.ghost_ = {}          # ghost variables: name -> kind
    self.setup_ = []          # python callables (exec, state, env) run after parameter creation
    self.lets_ = []           # (name, expr) evaluated in pre-state, visible to ensures
    self.distinct = True
    self.scenario_ = None     # label
    self.no_other_exceptions = True
    self.cover_ = []
    self.hooks = {}
    self.observe_ = []         # (label, pre-state spec expression): evaluated in counter-models for the replayer
    self.coroutine_ = None     # generator driven by next()/send(): dict(state, send, init, step, inv)
    self.function_of_ = None   # result is a deterministic function of these pre-state expressions

  # fluent API used by contract files
  def param(self, name, kind):
    self.params[name] = parse_kind(kind)
    return self

  def requires(self, name, expr):
    self.requires_.append((name, expr))
    return self

  def ensures(self, name, expr):
    self.ensures_.append((name, expr))
    return self

  def raises(self, exc, when=None, ensures=()):
    self.raises_.append((exc, when, list(ensures)))
    return self

  def modifies(self, *patterns):
    self.modifies_ = (self.modifies_ or []) + list(patterns)
    return self

  def returns(self, kind):
    self.returns_ = parse_kind(kind)
    return self

  def loop(self, header, inv=(), modifies=(), vars=None, index='_i', fn=None, decreases=None):
    self.loops_[(fn, header)] = dict(inv=list(inv), modifies=list(modifies), vars=dict(vars or {}), index=index,
                                     decreases=decreases)
    return self

  def option(self, **kw):
    self.opts.update(kw)
    return self

  def let(self, name, expr):
    self.lets_.append((name, expr))
    return self

  def ghost(self, name, kind, const=False):
    if const:
      self.ghost_const.add(name)      # specification input that no code under contract changes (e.g. the device script)
    self.ghost_[name] = kind if kind in ('seq', 'seq[str]', 'seq[int]') else parse_kind(kind)
    return self

  def setup(self, fn):
    self.setup_.append(fn)
    return self

  def trusted(self, reason):
    self.verify = False
    self.trusted_reason = reason
    return self

  def function_of(self, *exprs):
    self.function_of_ = list(exprs)
    return self

  def coroutine(self, state, send='val', init=(), step=(), inv=()):
    """Contract of a generator used as a coroutine (next() once, then send(v) repeatedly).
    state: {local name: kind} - the generator's locals that survive a suspension (exposed to callers as fields of the
    generator object); init: clauses at the first suspension; step: clauses relating a resumption (old) to the next
    suspension, `sent` is the value sent; inv: clauses holding at every suspension.  The body is verified by cutting it
    at its yield expressions; it must neither finish nor raise unless `raises` says so."""
    self.coroutine_ = dict(state={k: parse_kind(v) for k, v in state.items()}, send=parse_kind(send), init=list(init),
                           step=list(step), inv=list(inv))
    cls = 'gen:' + self.name
    for k, v in state.items():
      self.registry.fields[(cls, k)] = parse_kind(v)
    return self

  def observe(self, label, expr):
    self.observe_.append((label, expr))
    return self

  def cover(self, name, expr):
    self.cover_.append((name, expr))
    return self


class Registry(object):

  def __init__(self, repo):
    self.repo = repo
    self.contracts = []
    self.by_func = {}            # (module name, qualname) -> Contract (the one used at call sites)
    self.fields = {}             # (class name, field) -> Kind
    self.conf_kinds = {}
    self.global_overrides = {}   # module name -> {name: fn(exec, st) -> V}
    self.trusted_methods = {}    # (class name | '*', method) -> impl
    self.opaque = {}             # label -> spec fn
    self.trusted_cms = []
    self.externals = {}          # dotted name -> V factory
    self.lemmas = []
    self.extra_units = []        # custom verification units (callables)
    self.closed_classes = set()
    self.class_invariants = {}       # class name -> [spec expr over self]: shape invariants assumed when an object is reached
    self.private_fields = set()      # (class, field) never written by opaque user code (frame assumption)
    self.private_exceptions = set()  # exception classes user code never raises  # classes whose instance attributes are exactly the declared shape + class members

  # ---- declarations
  def invariant(self, clsname, expr):
    self.class_invariants.setdefault(clsname, []).append(expr)

  def private(self, clsname, *fields):
    for f in fields:
      self.private_fields.add((clsname, f))

  def closed(self, *names):
    self.closed_classes.update(names)

  def shape(self, clsname, **fields):
    for k, v in fields.items():
      self.fields[(clsname, k)] = parse_kind(v)

  def conf(self, **kinds):
    for k, v in kinds.items():
      self.conf_kinds[k] = parse_kind(v)

  def contract(self, path, qualname, props=(), name=None, callsite=True):
    c = Contract(self, path, qualname, props, name)
    c.finfo = self.repo.func(path, qualname)
    self.contracts.append(c)
    if callsite:
      self.by_func[(c.finfo.module.name, c.finfo.qualname)] = c
    return c

  def trusted_method(self, cls, name):
    if isinstance(cls, ClassInfo):
      for c in cls.mro():
        m = self.trusted_methods.get((c.name, name))
        if m is not None:
          return m
      for b in cls.builtin_bases():
        m = self.trusted_methods.get((b, name))
        if m is not None:
          return m
    else:
      m = self.trusted_methods.get((cls, name))
      if m is not None:
        return m
    return self.trusted_methods.get(('*', name))

  def trusted_cm(self, cm):
    for f in self.trusted_cms:
      r = f(cm)
      if r is not None:
        return r
    return None

  def opaque_spec(self, label):
    if label in self.opaque:
      return self.opaque[label]
    if 'fn' in self.opaque:
      return self.opaque['fn']
    raise Unsupported('no behaviour spec for opaque callable %s' % label)

  # ---- lookup
  def contract_for(self, finfo):
    if finfo.module is None:
      return None
    return self.by_func.get((finfo.module.name, finfo.qualname))

  def ctor_contract(self, cls):
    return None

  PSEUDO = ('regex', 'logger', 'lock', 'rlock', 'event', 'thread', 'object', 'file', 'match', 'condition', 'queue',
            'transport', 'usb', 'CONF', 'tempfile', 'timeout', 'stringio', 'colorama')

  def class_named(self, name):
    if name in self.PSEUDO:
      return name
    for m in list(self.repo.modules.values()):
      if name in m.classes:
        return m.classes[name]
      if name in m.enums:
        return m.enums[name]
    # qualified  module:Class  or dotted suffix
    for m in list(self.repo.modules.values()):
      for q, c in list(m.classes.items()) + list(m.enums.items()):
        if (m.name + '.' + q).endswith('.' + name):
          return c
    raise Unsupported('class %s not loaded (import its module in the contract file)' % name)

  def all_classes(self):
    for m in list(self.repo.modules.values()):
      for c in m.classes.values():
        yield c

  def all_enums(self):
    for m in list(self.repo.modules.values()):
      for c in m.enums.values():
        yield c

  def subclasses(self, cls):
    return [c for c in self.all_classes() if c.is_subclass_of(cls)]
