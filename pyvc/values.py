"""Symbolic value model of pyvc.

Every Python value the executor manipulates is one of the V* wrappers below.  z3 terms are never
inspected structurally from Python: the wrapper carries the static knowledge (kind, class, nullability).

Assumed Python semantics (listed in every evidence file):
  * int is mathematical (z3 Int); bool is a subtype of int for arithmetic/comparison.
  * float is IEEE-754 binary64, round-to-nearest-even (z3 Float64).
  * int -> float conversion rounds RNE and raises OverflowError outside +-(2^1024 - 2^970).
  * mixed int/float comparison is exact (CPython behaviour), via fp.to_real.
  * str / bytes are z3 strings (bytes: every code point <= 255, checked where bytes are built).
  * objects are references (z3 Int); 0 is None for nullable references.
"""
import z3

# Python float (IEEE binary64) is modelled as  finite real | NaN | +inf | -inf .  Every double is one of these, so the
# model over-approximates the set of floats (sound for proofs).  Comparisons are exact linear real arithmetic; rounding
# arithmetic (+ - * /) is uninterpreted with IEEE facts added per application (see fl_arith); the facts themselves are
# proved against z3's FloatingPoint theory by the unit `fp-axioms` (contracts/c07.py).
_Flt = z3.Datatype('Flt')
_Flt.declare('FIN', ('re', z3.RealSort()))
_Flt.declare('NAN')
_Flt.declare('PINF')
_Flt.declare('NINF')
Flt = _Flt.create()
F64 = Flt
RNE = None

# ---------------------------------------------------------------------------------------------
# universal value sort, used for fields / parameters that may hold several Python types
# ---------------------------------------------------------------------------------------------
_Val = z3.Datatype('Val')
_Val.declare('VN')                       # None
_Val.declare('VB', ('b', z3.BoolSort()))
_Val.declare('VI', ('i', z3.IntSort()))
_Val.declare('VF', ('f', F64))
_Val.declare('VS', ('s', z3.StringSort()))
_Val.declare('VR', ('r', z3.IntSort()))     # object reference (class via classof)
_Val.declare('VT', ('t', z3.IntSort()))     # a type object: 1=int 2=float 3=str 4=bool 5=bytes ...; repo classes 1000+uid
_Val.declare('VE', ('e', z3.IntSort()), ('m', z3.IntSort()))   # enum member (enum uid, member index)
_Val.declare('VC', ('c', z3.IntSort()))     # opaque callable id
_Val.declare('VY', ('y', z3.StringSort()))  # bytes (code points 0..255)
Val = _Val.create()

TAGS = ('none', 'bool', 'int', 'float', 'str', 'ref', 'type', 'enum', 'fn', 'bytes')
TYPE_IDS = {'int': 1, 'float': 2, 'str': 3, 'bool': 4, 'bytes': 5, 'list': 6, 'tuple': 7, 'dict': 8, 'set': 9, 'object': 10, 'NoneType': 11}
RECOG = {'none': 'is_VN', 'bool': 'is_VB', 'int': 'is_VI', 'float': 'is_VF', 'str': 'is_VS', 'ref': 'is_VR', 'type': 'is_VT', 'enum': 'is_VE', 'fn': 'is_VC', 'bytes': 'is_VY'}


def recog(tag, t):
  return getattr(Val, RECOG[tag])(t)
TYPE_NAMES = {v: k for k, v in TYPE_IDS.items()}


class Unsupported(Exception):
  """Construct outside the verified subset: the function becomes *undecided*, never a violation."""


class GhostUnset(Unsupported):
  """A spec clause mentions a ghost variable the unit under verification does not track: at call sites such a clause
  (which only constrains ghost state) is skipped."""


class V(object):
  pyonly = False

  def __repr__(self):
    return '<%s %s>' % (type(self).__name__, getattr(self, 't', ''))


class VNone(V):
  def __repr__(self):
    return 'VNone'


NONE = VNone()


class VBool(V):
  def __init__(self, t):
    self.t = z3.BoolVal(t) if isinstance(t, bool) else t


class VInt(V):
  def __init__(self, t):
    self.t = z3.IntVal(t) if isinstance(t, int) else t


class VFloat(V):
  def __init__(self, t):
    self.t = flt_const(t) if isinstance(t, (float, int)) else t


class VStr(V):
  def __init__(self, t):
    self.t = z3.StringVal(t) if isinstance(t, str) else t


class VBytes(V):
  def __init__(self, t):
    if isinstance(t, bytes):
      t = z3.StringVal(''.join(chr(c) for c in t))
    self.t = t


class VEnum(V):
  """Member of an enum class read from source; t is the member index (z3 Int)."""

  def __init__(self, enum, t):
    self.enum = enum          # EnumInfo
    self.t = z3.IntVal(t) if isinstance(t, int) else t


class VRef(V):
  """Reference to an object.  cls: ClassInfo or builtin container tag ('list','dict','set').

  nullable: t == 0 means None.   exact: dynamic class is exactly cls.   elem: Kind of container elements.
  """

  def __init__(self, cls, t, nullable=False, exact=False, elem=None, keykind=None):
    self.cls = cls
    self.t = z3.IntVal(t) if isinstance(t, int) else t
    self.nullable = nullable
    self.exact = exact
    self.elem = elem
    self.keykind = keykind

  def __repr__(self):
    return '<VRef %s %s%s>' % (getattr(self.cls, 'name', self.cls), self.t, '?' if self.nullable else '')


class VVal(V):
  """Value of the universal sort; resolved lazily (the executor forks on the tag when it must know)."""

  def __init__(self, t):
    self.t = t


class VTuple(V):
  pyonly = True

  def __init__(self, items):
    self.items = list(items)

  def __repr__(self):
    return 'VTuple%r' % (self.items,)


class VOpaque(V):
  """A value the verifier knows nothing about except identity (uninterpreted sort element)."""

  def __init__(self, t, label=''):
    self.t = t
    self.label = label


class VFunc(V):
  """Repo function (AST) possibly with closure env and bound self."""
  pyonly = True

  def __init__(self, finfo, closure=None, bound=None):
    self.finfo = finfo
    self.closure = closure
    self.bound = bound


class VBuiltin(V):
  pyonly = True

  def __init__(self, name, impl, bound=None):
    self.name = name
    self.impl = impl
    self.bound = bound

  def __repr__(self):
    return '<VBuiltin %s>' % self.name


class VClass(V):
  pyonly = True

  def __init__(self, cls):
    self.cls = cls      # ClassInfo | EnumInfo | builtin type name (str)

  def __repr__(self):
    return '<VClass %s>' % (getattr(self.cls, 'name', self.cls),)


class VModule(V):
  pyonly = True

  def __init__(self, name):
    self.name = name

  def __repr__(self):
    return '<VModule %s>' % self.name


class VCallable(V):
  """Opaque user callable identified by a z3 Int id (uninterpreted behaviour, logged)."""

  def __init__(self, t, label='fn', pure=False, nullable=False):
    self.t = t
    self.label = label
    self.pure = pure
    self.nullable = nullable


class VSuper(V):
  pyonly = True

  def __init__(self, cls, obj):
    self.cls = cls
    self.obj = obj


class VSnap(V):
  """Immutable snapshot of a container's contents (spec only): dict -> (dom, val), list -> (len, items)."""
  pyonly = True

  def __init__(self, how, a, b, elem=None):
    self.how = how      # 'dict' | 'list'
    self.a = a
    self.b = b
    self.elem = elem


class VSeq(V):
  """Ghost sequence (spec only): a mathematical map Int -> Val kept outside the heap, so no heap havoc touches it."""
  pyonly = True

  def __init__(self, t):
    self.t = t


class Raised(object):
  """Marker returned by evaluation when an exception propagates."""

  def __init__(self, exc):
    self.exc = exc       # VRef to exception object


# ---------------------------------------------------------------------------------------------
# Kinds: static description of what a field / parameter holds and how it is stored in z3
# ---------------------------------------------------------------------------------------------
class Kind(object):

  def __init__(self, tag, arg=None, elem=None, nullable=False, tags=None, key=None):
    self.tag = tag          # none bool int float str bytes enum ref list dict set val py fn
    self.arg = arg          # enum / class name
    self.elem = elem        # Kind for containers
    self.nullable = nullable
    self.tags = tags        # for 'val': allowed tags (tuple) or None
    self.key = key          # Kind of dict keys (default: str)
    self.owned = False

  def __repr__(self):
    s = self.tag
    if self.arg:
      s += ':' + str(self.arg)
    if self.elem is not None:
      s += '[%r]' % (self.elem,)
    if self.tags:
      s += '{%s}' % ','.join(self.tags)
    return ('opt:' if self.nullable else '') + s

  def sort(self):
    t = self.tag
    if t in ('int', 'enum', 'ref', 'list', 'dict', 'set', 'fn', 'exc', 'tuple'):
      return z3.IntSort()
    if t == 'bool':
      return z3.BoolSort()
    if t == 'float':
      return F64
    if t in ('str', 'bytes'):
      return z3.StringSort()
    if t == 'val':
      return Val
    raise Unsupported('kind %r has no z3 sort' % self)


def parse_kind(s):
  """'int' 'opt:ref:TestRecord' 'list[ref:PhaseRecord]' 'val{none,int,float}' 'dict[val]' 'enum:Outcome'."""
  if isinstance(s, Kind):
    return s
  s = s.strip()
  nullable = False
  if s.startswith('own:'):
    # owned container: the object stored in this field is referenced by this field of this object only
    k = parse_kind(s[4:])
    k.owned = True
    return k
  if s.startswith('opt:'):
    nullable = True
    s = s[4:]
  if s.startswith('ptuple('):
    # python-side tuple of fixed arity:  ptuple(kind1;kind2)
    return Kind('ptuple', elem=[parse_kind(x) for x in s[7:-1].split(';')])
  if s.startswith('val'):
    tags = None
    if '{' in s:
      tags = tuple(x.strip() for x in s[s.index('{') + 1:s.rindex('}')].split(','))
    return Kind('val', tags=tags)
  for c in ('list', 'dict', 'set', 'tuple'):
    if s == c:
      return Kind(c, elem=Kind('val'), key=Kind('str') if c == 'dict' else None, nullable=nullable)
    if s.startswith(c + '['):
      inner = s[len(c) + 1:-1]
      depth, cut = 0, None
      for n, ch in enumerate(inner):
        depth += ch in '[{'
        depth -= ch in ']}'
        if ch == ',' and depth == 0:
          cut = n
          break
      if c == 'dict' and cut is not None:
        return Kind(c, elem=parse_kind(inner[cut + 1:]), key=parse_kind(inner[:cut]), nullable=nullable)
      ek = parse_kind(inner)
      return Kind(c, elem=ek, key=Kind('str') if c == 'dict' else (ek if c == 'set' else None), nullable=nullable)
  if ':' in s:
    tag, arg = s.split(':', 1)
    return Kind(tag, arg=arg, nullable=nullable)
  return Kind(s, nullable=nullable)


# ---------------------------------------------------------------------------------------------
# numeric helpers
# ---------------------------------------------------------------------------------------------
INT_FLOAT_LIMIT = 2**1024 - 2**970   # |i| < limit  <=>  float(i) does not overflow
MAX_DOUBLE = 2**1024 - 2**971


def flt_const(x):
  import math
  from fractions import Fraction
  x = float(x)
  if math.isnan(x):
    return Flt.NAN
  if math.isinf(x):
    return Flt.PINF if x > 0 else Flt.NINF
  fr = Fraction(x)
  return Flt.FIN(z3.RealVal(fr.numerator) / z3.RealVal(fr.denominator) if fr.denominator != 1 else z3.RealVal(fr.numerator))


def f_isnan(f):
  return Flt.is_NAN(f)


def f_isinf(f):
  return z3.Or(Flt.is_PINF(f), Flt.is_NINF(f))


def f_iszero(f):
  return z3.And(Flt.is_FIN(f), Flt.re(f) == 0)


def fp_is_finite(f):
  return Flt.is_FIN(f)


def f_neg(f):
  return z3.If(Flt.is_FIN(f), Flt.FIN(-Flt.re(f)), z3.If(Flt.is_PINF(f), Flt.NINF, z3.If(Flt.is_NINF(f), Flt.PINF, Flt.NAN)))


def f_abs(f):
  r = Flt.re(f)
  return z3.If(Flt.is_FIN(f), Flt.FIN(z3.If(r >= 0, r, -r)), z3.If(Flt.is_NAN(f), Flt.NAN, Flt.PINF))


def _f_lt(a, b):
  return z3.Or(z3.And(Flt.is_NINF(a), z3.Or(Flt.is_FIN(b), Flt.is_PINF(b))),
               z3.And(Flt.is_FIN(a), Flt.is_FIN(b), Flt.re(a) < Flt.re(b)),
               z3.And(Flt.is_FIN(a), Flt.is_PINF(b)))


def _f_eq(a, b):
  return z3.Or(z3.And(Flt.is_FIN(a), Flt.is_FIN(b), Flt.re(a) == Flt.re(b)),
               z3.And(Flt.is_PINF(a), Flt.is_PINF(b)), z3.And(Flt.is_NINF(a), Flt.is_NINF(b)))


def cmp_fp_fp(op, a, b):
  if op == '<':
    return _f_lt(a, b)
  if op == '>':
    return _f_lt(b, a)
  if op == '<=':
    return z3.Or(_f_lt(a, b), _f_eq(a, b))
  if op == '>=':
    return z3.Or(_f_lt(b, a), _f_eq(a, b))
  if op == '==':
    return _f_eq(a, b)
  return z3.Not(_f_eq(a, b))


def cmp_int_fp(op, i, f, swapped=False):
  """Exact comparison  i <op> f  (or f <op> i if swapped) as CPython does it."""
  fi = Flt.FIN(z3.ToReal(i))
  return cmp_fp_fp(op, f, fi) if swapped else cmp_fp_fp(op, fi, f)


_INT2FP = z3.Function('int2fp', z3.IntSort(), z3.RealSort())


def int_to_fp(i):
  """float(i): exact for constants and for |i| <= 2^53, otherwise an uninterpreted rounding with IEEE facts."""
  s = z3.simplify(i)
  if z3.is_int_value(s):
    return flt_const(float(s.as_long())) if abs(s.as_long()) < INT_FLOAT_LIMIT else Flt.PINF
  return Flt.FIN(_INT2FP(i))


def int_to_fp_facts(i):
  s = z3.simplify(i)
  if z3.is_int_value(s):
    return []
  r = _INT2FP(i)
  ri = z3.ToReal(i)
  return [z3.Implies(z3.And(i <= 2**53, i >= -2**53), r == ri),
          z3.Implies(i >= 2**53, r >= 2**53), z3.Implies(i <= -2**53, r <= -2**53),
          # relative rounding error of round-to-nearest: |r - i| <= |i| * 2^-53
          z3.Implies(i >= 0, z3.And(r * 2**53 >= ri * (2**53 - 1), r * 2**53 <= ri * (2**53 + 1))),
          z3.Implies(i <= 0, z3.And(r * 2**53 <= ri * (2**53 - 1), r * 2**53 >= ri * (2**53 + 1)))]


_FL = {}


def fl_arith(op, a, b):
  """Rounded float arithmetic a <op> b: (result term, facts).  The facts are the IEEE properties listed in FP_AXIOMS."""
  if op not in _FL:
    _FL[op] = z3.Function('fl_' + {'+': 'add', '-': 'sub', '*': 'mul', '/': 'div'}[op], Flt, Flt, Flt)
  r = _FL[op](a, b)
  fa, fb, fr = Flt.is_FIN(a), Flt.is_FIN(b), Flt.is_FIN(r)
  ra, rb, rr = Flt.re(a), Flt.re(b), Flt.re(r)
  ge = lambda x, y: cmp_fp_fp('>=', x, y)
  le = lambda x, y: cmp_fp_fp('<=', x, y)
  zero = Flt.FIN(z3.RealVal(0))
  facts = [z3.Implies(z3.Or(Flt.is_NAN(a), Flt.is_NAN(b)), Flt.is_NAN(r)),
           z3.Implies(fr, z3.And(rr <= MAX_DOUBLE, rr >= -MAX_DOUBLE))]
  both = z3.And(fa, fb)
  pa, na, pb, nb = Flt.is_PINF(a), Flt.is_NINF(a), Flt.is_PINF(b), Flt.is_NINF(b)
  if op in ('+', '-'):
    # infinities: a - b is a + (-b)
    qb, mb = (pb, nb) if op == '+' else (nb, pb)
    facts += [z3.Implies(z3.And(pa, z3.Or(fb, qb)), Flt.is_PINF(r)), z3.Implies(z3.And(na, z3.Or(fb, mb)), Flt.is_NINF(r)),
              z3.Implies(z3.And(fa, qb), Flt.is_PINF(r)), z3.Implies(z3.And(fa, mb), Flt.is_NINF(r)),
              z3.Implies(z3.Or(z3.And(pa, mb), z3.And(na, qb)), Flt.is_NAN(r))]
  elif op == '*':
    posb, negb = z3.Or(pb, z3.And(fb, rb > 0)), z3.Or(nb, z3.And(fb, rb < 0))
    posa, nega = z3.Or(pa, z3.And(fa, ra > 0)), z3.Or(na, z3.And(fa, ra < 0))
    inf_any = z3.Or(pa, na, pb, nb)
    facts += [z3.Implies(z3.And(inf_any, z3.Or(z3.And(posa, posb), z3.And(nega, negb))), Flt.is_PINF(r)),
              z3.Implies(z3.And(inf_any, z3.Or(z3.And(posa, negb), z3.And(nega, posb))), Flt.is_NINF(r)),
              z3.Implies(z3.And(inf_any, z3.Or(z3.And(fa, ra == 0), z3.And(fb, rb == 0))), Flt.is_NAN(r))]
  else:
    posb, negb = z3.And(fb, rb > 0), z3.And(fb, rb < 0)
    facts += [z3.Implies(z3.And(pa, posb), Flt.is_PINF(r)), z3.Implies(z3.And(pa, negb), Flt.is_NINF(r)),
              z3.Implies(z3.And(na, posb), Flt.is_NINF(r)), z3.Implies(z3.And(na, negb), Flt.is_PINF(r)),
              z3.Implies(z3.And(fa, z3.Or(pb, nb)), r == zero),
              z3.Implies(z3.And(z3.Or(pa, na), z3.Or(pb, nb)), Flt.is_NAN(r))]
  if op == '+':
    facts += [z3.Implies(both, z3.Not(Flt.is_NAN(r))),
              z3.Implies(z3.And(both, rb >= 0), ge(r, a)), z3.Implies(z3.And(both, rb <= 0), le(r, a)),
              z3.Implies(z3.And(both, ra >= 0), ge(r, b)), z3.Implies(z3.And(both, ra <= 0), le(r, b)),
              z3.Implies(z3.And(both, rb == 0), r == a), z3.Implies(z3.And(both, ra == 0), r == b)]
  elif op == '-':
    facts += [z3.Implies(both, z3.Not(Flt.is_NAN(r))),
              z3.Implies(z3.And(both, rb >= 0), le(r, a)), z3.Implies(z3.And(both, rb <= 0), ge(r, a)),
              z3.Implies(z3.And(both, rb == 0), r == a),
              z3.Implies(z3.And(both, ra == rb), r == zero)]
  elif op == '*':
    facts += [z3.Implies(both, z3.Not(Flt.is_NAN(r))),
              z3.Implies(z3.And(both, z3.Or(z3.And(ra >= 0, rb >= 0), z3.And(ra <= 0, rb <= 0))), ge(r, zero)),
              z3.Implies(z3.And(both, z3.Or(z3.And(ra >= 0, rb <= 0), z3.And(ra <= 0, rb >= 0))), le(r, zero)),
              z3.Implies(z3.And(both, rb == 1), r == a), z3.Implies(z3.And(both, ra == 1), r == b),
              z3.Implies(z3.And(both, z3.Or(ra == 0, rb == 0)), r == zero)]
  elif op == '/':
    nz = z3.And(both, rb != 0)
    facts += [z3.Implies(nz, z3.Not(Flt.is_NAN(r))),
              z3.Implies(z3.And(nz, z3.Or(z3.And(ra >= 0, rb > 0), z3.And(ra <= 0, rb < 0))), ge(r, zero)),
              z3.Implies(z3.And(nz, z3.Or(z3.And(ra >= 0, rb < 0), z3.And(ra <= 0, rb > 0))), le(r, zero)),
              z3.Implies(z3.And(nz, rb == 1), r == a), z3.Implies(z3.And(nz, ra == 0), r == zero),
              z3.Implies(z3.And(nz, ra == rb), r == Flt.FIN(z3.RealVal(1)))]
  return r, facts


def cmp_int_int(op, a, b):
  return {'<': a < b, '<=': a <= b, '>': a > b, '>=': a >= b, '==': a == b, '!=': a != b}[op]


def cmp_str_str(op, a, b):
  if op == '==':
    return a == b
  if op == '!=':
    return a != b
  lt = z3.StrLT if hasattr(z3, 'StrLT') else None
  if op == '<':
    return a < b
  if op == '<=':
    return a <= b
  if op == '>':
    return b < a
  return b <= a


def as_intlike(v):
  """VBool/VInt -> z3 Int term, else None."""
  if isinstance(v, VInt):
    return v.t
  if isinstance(v, VBool):
    return z3.If(v.t, z3.IntVal(1), z3.IntVal(0))
  return None


def to_val(v):
  """Inject a typed value into the universal sort."""
  if isinstance(v, VVal):
    return v.t
  if isinstance(v, VNone):
    return Val.VN
  if isinstance(v, VBool):
    return Val.VB(v.t)
  if isinstance(v, VInt):
    return Val.VI(v.t)
  if isinstance(v, VFloat):
    return Val.VF(v.t)
  if isinstance(v, VStr):
    return Val.VS(v.t)
  if isinstance(v, VBytes):
    return Val.VY(v.t)
  if isinstance(v, VRef):
    if v.nullable:
      return z3.If(v.t == 0, Val.VN, Val.VR(v.t))
    return Val.VR(v.t)
  if isinstance(v, VEnum):
    return Val.VE(z3.IntVal(v.enum.uid), v.t)
  if isinstance(v, VClass):
    if isinstance(v.cls, str) and v.cls in TYPE_IDS:
      return Val.VT(z3.IntVal(TYPE_IDS[v.cls]))
    if isinstance(v.cls, str):
      from pyvc.loader import BUILTIN_EXC
      names = sorted(BUILTIN_EXC)
      if v.cls in names:
        return Val.VT(z3.IntVal(100 + names.index(v.cls)))
    if hasattr(v.cls, 'uid') and hasattr(v.cls, 'methods') and not hasattr(v.cls, 'members'):
      return Val.VT(z3.IntVal(1000 + v.cls.uid))
  if isinstance(v, VCallable):
    if v.nullable:
      return z3.If(v.t == 0, Val.VN, Val.VC(v.t))
    return Val.VC(v.t)
  raise Unsupported('cannot store %r in a val slot' % (v,))


_fresh = [0]


def fresh(prefix, sort):
  _fresh[0] += 1
  return z3.Const('%s!%d' % (prefix, _fresh[0]), sort)


def is_concrete_int(t):
  return z3.is_int_value(t)


def simp(t):
  return z3.simplify(t)
