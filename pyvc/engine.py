"""Symbolic executor over the real ASTs of /repo (expressions part + calls)."""
import ast

import z3

from pyvc import values as vv
from pyvc.values import (Val, V, VNone, NONE, VBool, VInt, VFloat, VStr, VBytes, VEnum, VRef, VVal, VTuple,
                         VClass, VCallable, VOpaque, VFunc, VBuiltin, VModule, VSuper, Raised, Unsupported,
                         fresh, Kind, parse_kind)
from pyvc.loader import ClassInfo, EnumInfo, FuncInfo, BUILTIN_EXC, builtin_exc_is_sub
from pyvc.state import State, Obligation, Ctx, ALLOC_BASE
from pyvc.heapops import HeapMixin
from pyvc.ops import OpsMixin, CMP, VTypeSym

LOGGER_NAMES = ('logger', 'state_logger', '_logger', '_LOG', '_log')
MAX_INLINE_DEPTH = 12

BINOPS = {'Add': '+', 'Sub': '-', 'Mult': '*', 'Div': '/', 'FloorDiv': '//', 'Mod': '%', 'Pow': '**',
          'BitAnd': '&', 'BitOr': '|', 'BitXor': '^', 'LShift': '<<', 'RShift': '>>'}


class VPyDict(V):
  """Python-side dict with constant string keys (kwargs, literal option dicts)."""
  pyonly = True

  def __init__(self, d):
    self.d = dict(d)


class VGen(V):
  """A comprehension / generator expression kept unevaluated until consumed by any/all/sum/list/..."""
  pyonly = True

  def __init__(self, node, env, kind):
    self.node = node
    self.env = env
    self.kind = kind      # 'gen' | 'list' | 'set' | 'dict'


class ExprMixin(object):

  # ------------------------------------------------------------------ obligations
  def safety(self, st, cond, kind, msg, node=None):
    """Implicit-exception safety obligation: prove cond on this path, then assume it."""
    c = z3.simplify(cond)
    if z3.is_true(c):
      return
    if self.spec_mode:
      st.assume(c)
      return
    node = node or self.cur_node
    where = '%s:%s' % (self.cur_func.qualname if self.cur_func else '?', getattr(node, 'lineno', '?'))
    name = '%s/safety.%s@%s' % (self.ctx.unit, kind, self.stmt_key(node))
    self.ctx.obligations.append(Obligation(name, 'safety', st.pc, c, where, {'msg': msg}))
    st.assume(c)

  def stmt_key(self, node):
    try:
      txt = ast.unparse(node)
    except Exception:
      txt = '?'
    txt = ' '.join(txt.split())
    return txt[:60]

  def raise_builtin(self, st, name, msg=''):
    exc = self.alloc(st, 'exc:' + name)
    st.pyheap[(self.oid_of(exc), 'args')] = VTuple([VStr(msg)])
    return Raised(exc)

  def exc_class_of(self, exc):
    """Static class of an exception reference: ClassInfo or builtin name."""
    if isinstance(exc.cls, str) and exc.cls.startswith('exc:'):
      return exc.cls[4:]
    return exc.cls

  # ------------------------------------------------------------------ names
  def lookup(self, st, name, node=None):
    if name in st.env:
      return st.env[name]
    clo = st.env.get('$closure')
    while clo is not None:
      if name in clo:
        return clo[name]
      clo = clo.get('$closure')
    mod = st.env.get('$module')
    if mod is not None:
      v = self.module_global(st, mod, name)
      if v is not None:
        return v
    v = self.builtin_name(name)
    if v is not None:
      return v
    raise Unsupported('unresolved name %s' % name)

  def module_global(self, st, mod, name, depth=0):
    if name in self.ctx.registry.global_overrides.get(mod.name, {}):
      return self.ctx.registry.global_overrides[mod.name][name](self, st)
    if name in mod.functions:
      return VFunc(mod.functions[name])
    if name in mod.classes:
      return VClass(mod.classes[name])
    if name in mod.enums:
      return VClass(mod.enums[name])
    if name in mod.globals:
      if name in ('CONF', 'conf'):
        return VRef('CONF', 1)
      if name in LOGGER_NAMES:
        return VRef('logger', 2)
      return self.eval_module_const(st, mod, mod.globals[name])
    if name in mod.imports:
      imp = mod.imports[name]
      if imp[0] == 'module':
        return VModule(imp[1])
      full = imp[1] + '.' + imp[2]
      if self.ctx.repo.is_repo_module(full):
        return VModule(full)
      if self.ctx.repo.is_repo_module(imp[1]):
        v = self.module_global(st, self.ctx.repo.module(imp[1]), imp[2], depth + 1)
        if v is not None:
          return v
      return self.external(full)
    return None

  def eval_module_const(self, st, mod, expr):
    saved = st.env
    st.env = {'$module': mod}
    try:
      rs = self.eval(st, expr)
    finally:
      st.env = saved
    if len(rs) != 1 or isinstance(rs[0][1], Raised):
      raise Unsupported('module constant needs forking: ' + ast.unparse(expr)[:50])
    return rs[0][1]

  def module_attr(self, st, modv, name):
    if self.ctx.repo.is_repo_module(modv.name):
      sub = modv.name + '.' + name
      if self.ctx.repo.is_repo_module(sub):
        return VModule(sub)
      v = self.module_global(st, self.ctx.repo.module(modv.name), name)
      if v is not None:
        return v
      raise Unsupported('no %s in module %s' % (name, modv.name))
    return self.external(modv.name + '.' + name)

  # ------------------------------------------------------------------ expression evaluation
  MERGE_NODES = (ast.BoolOp, ast.Compare, ast.IfExp, ast.Call, ast.Attribute, ast.UnaryOp, ast.BinOp, ast.Subscript)

  def eval(self, st, e):
    """[(state, V | Raised)]"""
    m = getattr(self, 'e_' + type(e).__name__, None)
    if m is None:
      raise Unsupported('expression %s' % type(e).__name__)
    if not isinstance(e, self.MERGE_NODES):
      return m(st, e)
    base = len(st.pc)
    results = m(st, e)
    if len(results) > 1:
      results = self.merge_results(base, results)
    return results

  # ------------------------------------------------------------------ state merging at expression joins
  def same_state(self, a, b):
    if a.next_oid != b.next_oid or a.locks != b.locks or a.exc_stack != b.exc_stack:
      return False
    if len(a.heap) != len(b.heap) or len(a.pyheap) != len(b.pyheap) or len(a.env) != len(b.env):
      return False
    for k, v in a.heap.items():
      w = b.heap.get(k)
      if w is None or not (v is w or v.eq(w)):
        return False
    for k, v in a.pyheap.items():
      if b.pyheap.get(k) is not v:
        return False
    for k, v in a.env.items():
      w = b.env.get(k, self)
      if w is v:
        continue
      if k.startswith('$'):
        continue
      if type(v) is type(w) and hasattr(v, 't') and hasattr(w, 't') and not isinstance(v.t, (int, str)) and v.t.eq(w.t):
        continue
      return False
    if a.ghost.keys() != b.ghost.keys():
      return False
    for k, v in a.ghost.items():
      if b.ghost[k] is not v and not (hasattr(v, 't') and hasattr(b.ghost[k], 't') and v.t.eq(b.ghost[k].t)):
        return False
    return True

  def merge_values(self, st, alts, states=None):
    """alts: [(guard, V)] -> single V or None if not mergeable."""
    vals = [v for _, v in alts]
    first = vals[0]
    if all(v is first for v in vals):
      return first
    def ite(terms):
      t = terms[-1][1]
      for g, x in reversed(terms[:-1]):
        t = z3.If(g, x, t)
      return t
    for cls in (VBool, VInt, VFloat, VStr, VBytes):
      if all(type(v) is cls for v in vals):
        return cls(ite([(g, v.t) for g, v in alts]))
    if all(isinstance(v, VNone) for v in vals):
      return NONE
    if all(isinstance(v, VEnum) for v in vals) and all(v.enum is first.enum for v in vals):
      return VEnum(first.enum, ite([(g, v.t) for g, v in alts]))
    if all(isinstance(v, (VRef, VNone)) for v in vals):
      refs = [v for v in vals if isinstance(v, VRef)]
      if refs and all(r.cls is refs[0].cls or r.cls == refs[0].cls for r in refs):
        nullable = any(isinstance(v, VNone) or v.nullable for v in vals)
        return VRef(refs[0].cls, ite([(g, v.t if isinstance(v, VRef) else z3.IntVal(0)) for g, v in alts]),
                    nullable=nullable, exact=all(r.exact for r in refs), elem=refs[0].elem)
    if all(isinstance(v, (VNone, VBool, VInt, VFloat, VStr, VVal)) for v in vals):
      t = ite([(g, self.to_val(st, v)) for g, v in alts])
      tags = []
      for n, v in enumerate(vals):
        if isinstance(v, VVal):
          k = (states[n] if states else st).tags.get(v.t.get_id())
          if k is None:
            tags = None
            break
          for x in ((k,) if isinstance(k, str) else k):
            if x not in tags:
              tags.append(x)
        else:
          x = {VNone: 'none', VBool: 'bool', VInt: 'int', VFloat: 'float', VStr: 'str'}[type(v)]
          if x not in tags:
            tags.append(x)
      if tags:
        st.tags[t.get_id()] = tuple(tags) if len(tags) > 1 else tags[0]
      return VVal(t)
    return None

  def merge_results(self, base, results):
    """Join paths that differ only in path condition and result value (no heap / env difference)."""
    groups = []     # list of lists of (state, value)
    for s, v in results:
      placed = False
      for g in groups:
        s0, v0 = g[0]
        if isinstance(v, Raised) != isinstance(v0, Raised):
          continue
        if isinstance(v, Raised):
          c0, c1 = self.exc_class_of(v0.exc), self.exc_class_of(v.exc)
          if not (isinstance(c0, str) and c0 == c1 and self.oid_of(v.exc) is not None and self.oid_of(v0.exc) is not None):
            continue
          # ignore the exception objects themselves when comparing states
          a, b = s0.fork(), s.fork()
          for st_, ex_ in ((a, v0.exc), (b, v.exc)):
            oid = self.oid_of(ex_)
            for k in [k for k in st_.pyheap if k[0] == oid]:
              del st_.pyheap[k]
            st_.next_oid = 0
          for st_ in (a, b):
            st_.pc = []
          if self.same_state(a, b):
            g.append((s, v))
            placed = True
            break
          continue
        if self.same_state(s0, s):
          g.append((s, v))
          placed = True
          break
      if not placed:
        groups.append([(s, v)])
    out = []
    for g in groups:
      if len(g) == 1:
        out.append(g[0])
        continue
      s0, v0 = g[0]
      guards = []
      axioms = []
      for s, v in g:
        d, ax = s.split_delta(base)
        guards.append(z3.And(*d) if d else z3.BoolVal(True))
        axioms.extend(a for a in ax if all(a.get_id() != b.get_id() for b in axioms))
      if isinstance(v0, Raised):
        merged_v = v0
      else:
        merged_v = self.merge_values(s0, list(zip(guards, [v for _, v in g])), [s for s, _ in g])
        if merged_v is None:
          out.extend(g)
          continue
      s0.pc = s0.pc[:base] + axioms + [z3.simplify(z3.Or(*guards))]
      for a in axioms:
        s0.ax.add(a.get_id())
      # tag knowledge after the join: a declared tag set (tuple) survives; a resolution (str) survives only if every
      # merged path agrees on it, otherwise it falls back to the declared set
      keep = {}
      allk = set()
      for s, _ in g:
        allk.update(s.tags)
      for k in allk:
        seen = [s.tags.get(k) for s, _ in g]
        if all(t == seen[0] for t in seen):
          keep[k] = seen[0]
          continue
        tup = [t for t in seen if isinstance(t, tuple)]
        strs = [t for t in seen if isinstance(t, str)]
        if tup:
          keep[k] = tup[0]
        elif None not in seen and strs:
          u = []
          for t in strs:
            if t not in u:
              u.append(t)
          keep[k] = tuple(u) if len(u) > 1 else u[0]
      s0.tags = keep
      out.append((s0, merged_v))
    return out

  def eval_list(self, st, exprs):
    """Evaluate expressions left to right: [(state, [V...] | Raised)]."""
    results = [(st, [])]
    for e in exprs:
      nxt = []
      for s, acc in results:
        if isinstance(acc, Raised):
          nxt.append((s, acc))
          continue
        if isinstance(e, ast.Starred):
          for s2, v in self.eval(s, e.value):
            if isinstance(v, Raised):
              nxt.append((s2, v))
            else:
              nxt.append((s2, acc + [('*', v)]))
          continue
        for s2, v in self.eval(s, e):
          nxt.append((s2, v if isinstance(v, Raised) else acc + [v]))
      results = nxt
    return results

  def then(self, results, fn):
    """Monadic bind: apply fn(state, value) to every non-raised result."""
    out = []
    for s, v in results:
      if isinstance(v, Raised):
        out.append((s, v))
      else:
        out.extend(fn(s, v))
    return out

  def e_Constant(self, st, e):
    c = e.value
    if c is None:
      return [(st, NONE)]
    if isinstance(c, bool):
      return [(st, VBool(c))]
    if isinstance(c, int):
      return [(st, VInt(c))]
    if isinstance(c, float):
      return [(st, VFloat(c))]
    if isinstance(c, str):
      return [(st, VStr(c))]
    if isinstance(c, bytes):
      return [(st, VBytes(c))]
    if c is Ellipsis:
      return [(st, NONE)]
    raise Unsupported('constant %r' % (c,))

  def e_Yield(self, st, e):
    return self.co_yield(st, e)

  def e_Name(self, st, e):
    return [(st, self.lookup(st, e.id, e))]

  def e_Tuple(self, st, e):
    def fin(s, vals):
      items = []
      for v in vals:
        if isinstance(v, tuple) and v[0] == '*':
          items.extend(self.iter_values(s, v[1]))
        else:
          items.append(v)
      return [(s, VTuple(items))]
    return self.then(self.eval_list(st, e.elts), fin)

  def e_List(self, st, e):
    def fin(s, vals):
      items = []
      for v in vals:
        if isinstance(v, tuple) and v[0] == '*':
          items.extend(self.iter_values(s, v[1]))
        else:
          items.append(v)
      return [(s, self.new_list(s, items))]
    return self.then(self.eval_list(st, e.elts), fin)

  def e_Set(self, st, e):
    def fin(s, vals):
      d = self.new_dict(s, [(v, VBool(True)) for v in vals], cls='set')
      return [(s, d)]
    return self.then(self.eval_list(st, e.elts), fin)

  def e_Dict(self, st, e):
    if any(k is None for k in e.keys):
      raise Unsupported('dict unpacking in display')
    def fin(s, vals):
      n = len(e.keys)
      ks, vs = vals[:n], vals[n:]
      if vs and any(getattr(v, 'pyonly', False) for v in vs):
        # python-side dict (functions as values): keys must be constant strings or concrete enum members
        d = VPyDict({})
        for k, v in zip(ks, vs):
          d.d[self.pykey(k)] = v
        return [(s, d)]
      return [(s, self.new_dict(s, list(zip(ks, vs))))]
    return self.then(self.eval_list(st, list(e.keys) + list(e.values)), fin)

  def pykey(self, k):
    if isinstance(k, VStr) and z3.is_string_value(z3.simplify(k.t)):
      return z3.simplify(k.t).as_string()
    if isinstance(k, VEnum) and z3.is_int_value(z3.simplify(k.t)):
      return ('enum', k.enum.name, z3.simplify(k.t).as_long())
    raise Unsupported('python-side dict key %r' % (k,))

  def e_UnaryOp(self, st, e):
    return self.then(self.eval(st, e.operand), lambda s, v: self.unary(s, type(e.op).__name__, v))

  def e_BinOp(self, st, e):
    op = BINOPS[type(e.op).__name__]
    def fin(s, vals):
      return self.arith(s, op, vals[0], vals[1])
    return self.then(self.eval_list(st, [e.left, e.right]), fin)

  def e_BoolOp(self, st, e):
    is_and = isinstance(e.op, ast.And)
    if self.spec_mode:
      # logical reading, no path forking: right operands are evaluated under the guard of the left ones
      s = st.fork()
      terms = []
      for sub in e.values:
        t = self.eval_merged_bool(s, sub)
        terms.append(t)
        s.assume(t if is_and else z3.Not(t))
      for c in s.pc:
        if c.get_id() in s.ax and c.get_id() not in st.ax:
          st.axiom(c)
      self.lift_ghost(st, s)
      return [(st, VBool(z3.And(*terms) if is_and else z3.Or(*terms)))]
    def go(s, idx):
      def after(s2, v):
        if idx == len(e.values) - 1:
          return [(s2, v)]
        out = []
        for s3, b in self.truth_branch(s2, v):
          if b == is_and:
            out.extend(go(s3, idx + 1))
          else:
            out.append((s3, v))
        return out
      return self.then(self.eval(s, e.values[idx]), after)
    return go(st, 0)

  def e_IfExp(self, st, e):
    def after(s, c):
      out = []
      for s2, b in self.truth_branch(s, c):
        out.extend(self.eval(s2, e.body if b else e.orelse))
      return out
    return self.then(self.eval(st, e.test), after)

  def e_Compare(self, st, e):
    def go(s, left, idx):
      def after(s2, right):
        op = e.ops[idx]
        rs = self.compare_op(s2, op, left, right)
        if idx == len(e.ops) - 1:
          return rs
        out = []
        for s3, r in rs:
          if isinstance(r, Raised):
            out.append((s3, r))
            continue
          for s4, b in self.truth_branch(s3, r):
            if b:
              out.extend(go(s4, right, idx + 1))
            else:
              out.append((s4, r if isinstance(r, VBool) else VBool(False)))
        return out
      return self.then(self.eval(s, e.comparators[idx]), after)
    return self.then(self.eval(st, e.left), lambda s, l: go(s, l, 0))

  def compare_op(self, st, op, a, b):
    n = type(op).__name__
    if n in CMP:
      return self.compare(st, CMP[n], a, b)
    if n == 'Is':
      return [(st, VBool(self.is_same(st, a, b)))]
    if n == 'IsNot':
      return [(st, VBool(z3.Not(self.is_same(st, a, b))))]
    if n in ('In', 'NotIn'):
      rs = self.contains(st, b, a)
      if n == 'NotIn':
        rs = [(s, VBool(z3.Not(r.t)) if isinstance(r, VBool) else r) for s, r in rs]
      return rs
    raise Unsupported('compare ' + n)

  def contains(self, st, container, item):
    """item in container -> [(state, VBool|Raised)]"""
    out = []
    from pyvc.values import VSnap
    if isinstance(container, VSnap):
      if container.how == 'dict':
        return [(st, VBool(z3.Select(container.a, self.to_val(st, item))))]
      i = fresh('in_i', z3.IntSort())
      return [(st, VBool(z3.Exists([i], z3.And(0 <= i, i < container.a, z3.Select(container.b, i) == self.to_val(st, item)))))]
    for s, c in self.resolve(st, container):
      if isinstance(c, VRef) and c.cls in ('dict', 'set'):
        out.append((s, VBool(self.dict_has(s, c, item))))
      elif isinstance(c, VRef) and c.cls == 'list' and self.oid_of(c) is not None and (self.oid_of(c), '$keys_of') in s.pyheap and \
          s.pyheap[(self.oid_of(c), '$keys_of')][2].eq(self.list_len(s, c)) and s.pyheap[(self.oid_of(c), '$keys_of')][3].eq(self.list_items(s, c)):
        dom, kk = s.pyheap[(self.oid_of(c), '$keys_of')][:2]
        out.append((s, VBool(z3.Select(dom, self.to_val(s, item)))))
      elif isinstance(c, VRef) and c.cls in ('list', 'tuple'):
        vals = self.list_values(s, c)
        if vals is not None:
          c = VTuple(vals)
        else:
          i = fresh('in_i', z3.IntSort())
          out.append((s, VBool(z3.Exists([i], z3.And(0 <= i, i < self.list_len(s, c),
                                                      z3.Select(self.list_items(s, c), i) == self.to_val(s, item))))))
          continue
      if isinstance(c, VTuple):
        acc = [(s, z3.BoolVal(False))]
        for el in c.items:
          nxt = []
          for s2, b in acc:
            for s3, r in self.compare(s2, '==', item, el):
              if isinstance(r, Raised):
                raise Unsupported('== raising inside `in`')
              nxt.append((s3, z3.Or(b, r.t)))
          acc = nxt
        out.extend((s2, VBool(b)) for s2, b in acc)
      elif isinstance(c, VStr) and isinstance(item, VStr):
        out.append((s, VBool(z3.Contains(c.t, item.t))))
      elif isinstance(c, VBytes) and isinstance(item, VBytes):
        out.append((s, VBool(z3.Contains(c.t, item.t))))
      elif isinstance(c, VPyDict):
        if isinstance(item, VStr) and z3.is_string_value(z3.simplify(item.t)):
          out.append((s, VBool(z3.simplify(item.t).as_string() in c.d)))
        else:
          out.append((s, VBool(z3.Or(*[item.t == z3.StringVal(k) for k in c.d]) if c.d else False)))
      elif isinstance(c, VRef) and isinstance(c.cls, ClassInfo) and c.cls.find_method('__contains__'):
        for s2, r in self.call_function(s, c.cls.find_method('__contains__'), [c, item], {}):
          if isinstance(r, Raised):
            out.append((s2, r))
          else:
            for s3, b in self.truth(s2, r):
              out.append((s3, VBool(b)))
      elif isinstance(c, VRef) and not isinstance(c, (VTuple,)) and c.cls not in ('dict', 'set', 'list', 'tuple'):
        raise Unsupported('`in` on %r' % (c,))
    return out

  def e_Attribute(self, st, e):
    return self.then(self.eval(st, e.value), lambda s, v: self.getattr(s, v, e.attr, e))

  def e_Subscript(self, st, e):
    if isinstance(e.slice, ast.Slice):
      parts = [e.value] + [p if p is not None else ast.Constant(None) for p in (e.slice.lower, e.slice.upper, e.slice.step)]
      return self.then(self.eval_list(st, parts), lambda s, v: self.slice(s, v[0], v[1], v[2], v[3]))
    return self.then(self.eval_list(st, [e.value, e.slice]), lambda s, v: self.subscript(s, v[0], v[1], e))

  def e_Lambda(self, st, e):
    fi = FuncInfo(st.env.get('$module'), '<lambda>', e)
    return [(st, VFunc(fi, closure=st.env))]

  def e_JoinedStr(self, st, e):
    parts = [v.value if isinstance(v, ast.FormattedValue) else v for v in e.values]
    def fin(s, vals):
      acc = [(s, z3.StringVal(''))]
      for v in vals:
        nxt = []
        for s2, t in acc:
          for s3, sv in self.to_str(s2, v):
            if isinstance(sv, Raised):
              return [(s3, sv)]
            nxt.append((s3, z3.Concat(t, sv.t)))
        acc = nxt
      return [(s2, VStr(z3.simplify(t))) for s2, t in acc]
    return self.then(self.eval_list(st, parts), fin)

  def e_FormattedValue(self, st, e):
    return self.then(self.eval(st, e.value), lambda s, v: self.to_str(s, v))

  def e_ListComp(self, st, e):
    try:
      snap = st.fork()
      return self.comprehension(st, e, 'list')
    except Unsupported as u:
      if 'symbolic iterable' not in str(u):
        raise
      # kept lazy: only any()/all()/sum() may consume it (pure element expressions)
      st.env, st.pc, st.heap = snap.env, snap.pc, snap.heap
      return [(st, VGen(e, st.env, 'listcomp'))]

  def e_GeneratorExp(self, st, e):
    return [(st, VGen(e, st.env, 'gen'))]

  def e_SetComp(self, st, e):
    return self.comprehension(st, e, 'set')

  def e_DictComp(self, st, e):
    return self.comprehension(st, e, 'dict')

  def e_Starred(self, st, e):
    raise Unsupported('starred expression here')

  def e_NamedExpr(self, st, e):
    def fin(s, v):
      s.env[e.target.id] = v
      return [(s, v)]
    return self.then(self.eval(st, e.value), fin)

  def e_Call(self, st, e):
    self.cur_node = e
    if self.spec_mode and isinstance(e.func, ast.Name) and e.func.id == 'old' and 'old' not in st.env:
      return self.eval_old(st, e.args[0])
    if self.spec_mode and isinstance(e.func, ast.Name) and e.func.id == 'implies' and 'implies' not in st.env:
      # special form: the consequent is evaluated under the antecedent (guards partial operations)
      s = st.fork()
      a = self.eval_merged_bool(s, e.args[0])
      s.assume(a)
      b = self.eval_merged_bool(s, e.args[1])
      for c, _ in [(c, None) for c in s.pc if c.get_id() in s.ax and c.get_id() not in st.ax]:
        st.axiom(c)
      self.lift_ghost(st, s)
      return [(st, VBool(z3.Implies(a, b)))]
    # evaluate callee, positional args, keyword args in order
    def after_fn(s, fn):
      kw_names = [k.arg for k in e.keywords]
      if isinstance(fn, VBuiltin) and fn.name.startswith('logger.') and not fn.name.endswith('getChild'):
        # logging has no effect on verified state; arguments are still evaluated (they can raise), except that an
        # argument outside the modelled subset is replaced by an opaque value instead of making the unit undecided
        vals = []
        cur = [(s, [])]
        for a in list(e.args) + [k.value for k in e.keywords]:
          nxt = []
          for s1, acc in cur:
            if isinstance(acc, Raised):
              nxt.append((s1, acc))
              continue
            try:
              snap = s1.fork()
              rs = self.eval(s1, a.value if isinstance(a, ast.Starred) else a)
            except Unsupported:
              s1.env, s1.pc, s1.heap, s1.pyheap, s1.ax = snap.env, snap.pc, snap.heap, snap.pyheap, snap.ax
              self.ctx.use_trusted('logging argument not modelled')
              rs = [(s1, VOpaque(z3.IntVal(0), 'log-arg'))]
            for s2, v in rs:
              nxt.append((s2, v if isinstance(v, Raised) else acc + [v]))
          cur = nxt
        out = []
        for s1, acc in cur:
          if isinstance(acc, Raised):
            out.append((s1, acc))
          else:
            out.extend(fn.impl(self, s1, [fn.bound] + acc[:len(e.args)], {}))
        return out
      def after_args(s2, vals):
        pos = []
        for v in vals[:len(e.args)]:
          if isinstance(v, tuple) and v[0] == '*':
            pos.extend(self.iter_values(s2, v[1]))
          else:
            pos.append(v)
        kwargs = {}
        for name, v in zip(kw_names, vals[len(e.args):]):
          if name is None:
            if isinstance(v, VPyDict):
              kwargs.update(v.d)
            elif isinstance(v, VRef) and v.cls == 'dict' and self.concrete_len(s2, self.dict_keys(s2, v)) == 0:
              pass
            else:
              kwargs['$kwargs'] = v
          else:
            kwargs[name] = v
        self.cur_node = e
        return self.call(s2, fn, pos, kwargs, e)
      return self.then(self.eval_list(s, list(e.args) + [k.value for k in e.keywords]), after_args)
    return self.then(self.eval(st, e.func), after_fn)

  # ------------------------------------------------------------------ iteration helpers
  def iter_values(self, st, v):
    """Concrete list of element values of an iterable (no forking); Unsupported if symbolic length."""
    if isinstance(v, VTuple):
      return list(v.items)
    if isinstance(v, VRef) and v.cls in ('list', 'tuple'):
      vals = self.list_values(st, v)
      if vals is not None:
        return vals
    if isinstance(v, VRef) and v.cls in ('dict', 'set'):
      vals = self.list_values(st, self.dict_keys(st, v))
      if vals is not None:
        return vals
    if isinstance(v, VPyDict):
      return [VStr(k) for k in v.d]
    if isinstance(v, (VStr, VBytes)):
      c = z3.simplify(v.t)
      if z3.is_string_value(c) and len(c.as_string()) <= 64:
        txt = c.as_string()
        return [VStr(ch) for ch in txt] if isinstance(v, VStr) else [VInt(ord(ch)) for ch in txt]
    raise Unsupported('iteration over symbolic-length iterable needs a loop invariant / quantifier')
