"""Heap operations: allocation, object fields, lists, dicts, boxing of values into the universal sort."""
import z3

from pyvc import values as vv
from pyvc.values import (Val, V, VNone, NONE, VBool, VInt, VFloat, VStr, VBytes, VEnum, VRef, VVal, VTuple,
                         VClass, VCallable, VOpaque, Kind, parse_kind, Unsupported, fresh)
from pyvc.loader import ClassInfo, EnumInfo

I = z3.IntSort()
ALLOC_BASE_ = 1000000
ARR_IV = z3.ArraySort(I, Val)
ARR_VB = z3.ArraySort(Val, z3.BoolSort())
ARR_VV = z3.ArraySort(Val, Val)


class HeapMixin(object):
  """Mixed into Exec; self.ctx is the Ctx."""

  # ------------------------------------------------------------------ kinds / shapes
  def field_kind(self, cls, name):
    """Declared kind of field `name` for objects of class cls (walks the MRO); (owner_name, Kind) or None."""
    fields = self.ctx.registry.fields
    if isinstance(cls, ClassInfo):
      for c in cls.mro():
        k = fields.get((c.name, name))
        if k is not None:
          return c.name, k
    elif isinstance(cls, str):
      k = fields.get((cls, name))
      if k is not None:
        return cls, k
    return None

  def class_by_name(self, name):
    return self.ctx.registry.class_named(name)

  def wrap(self, st, term, kind, assume_shape=True):
    """z3 term of kind.sort() -> V."""
    t = kind.tag
    if t == 'int':
      return VInt(term)
    if t == 'bool':
      return VBool(term)
    if t == 'float':
      return VFloat(term)
    if t == 'str':
      return VStr(term)
    if t == 'bytes':
      return VBytes(term)
    if t == 'enum':
      e = self.class_by_name(kind.arg)
      if assume_shape:
        st.axiom(z3.And(term >= (0 if not kind.nullable else -1), term < len(e.members)))
      if kind.nullable:
        raise Unsupported('nullable enum field: declare as val')
      return VEnum(e, term)
    if t in ('ref', 'exc'):
      c = self.class_by_name(kind.arg) if kind.arg else None
      v = VRef(c, term, nullable=kind.nullable)
      self.assume_class_invariants(st, v)
      return v
    if t in ('list', 'dict', 'set', 'tuple'):
      return VRef(t, term, nullable=kind.nullable, elem=kind.elem, keykind=kind.key)
    if t == 'fn':
      return VCallable(term, label=kind.arg or 'fn', nullable=kind.nullable)
    if t == 'val':
      if kind.tags and assume_shape:
        st.axiom(z3.Or(*[self.recog(tag, term) for tag in kind.tags]))
      if kind.tags:
        st.tags.setdefault(term.get_id(), tuple(kind.tags))
      return VVal(term)
    raise Unsupported('wrap kind %r' % (kind,))

  def assume_class_invariants(self, st, v):
    """Declared shape invariants of the object's class (e.g. valid PhaseOptions) hold for every object reached through a
    declared field; they are listed as assumptions in evidence."""
    inv = self.ctx.registry.class_invariants
    if not inv or not isinstance(v.cls, ClassInfo) or getattr(self, '_in_inv', False):
      return
    exprs = [e for c in v.cls.mro() for e in inv.get(c.name, [])]
    if not exprs:
      return
    key = ('$inv', v.t.get_id())
    if key in st.ghost:
      return
    st.ghost[key] = True
    self._in_inv = True
    try:
      for e in exprs:
        s = st.fork()
        s.env = {'self': VRef(v.cls, v.t), '$module': v.cls.module}
        saved = self.spec_mode
        self.spec_mode = True
        try:
          t = self.eval_merged_bool(s, self.parse_spec(e))
        finally:
          self.spec_mode = saved
        for c in s.pc[len(st.pc):]:
          if c.get_id() in s.ax and c.get_id() not in st.ax:
            st.axiom(c)
        st.axiom(z3.Implies(v.t != 0, t) if v.nullable else t)
      self.ctx.use_trusted('class invariant: %s' % v.cls.name)
    finally:
      self._in_inv = False

  def unwrap(self, st, v, kind):
    """V -> z3 term of kind.sort(); raises Unsupported when statically incompatible."""
    t = kind.tag
    if t == 'val':
      return self.to_val(st, v)
    if isinstance(v, VVal):
      v = self.from_val(st, v.t, kind, assume_shape=False, check=True)
    if t == 'int' and isinstance(v, VInt):
      return v.t
    if t == 'int' and isinstance(v, VBool):
      return vv.as_intlike(v)
    if t == 'bool' and isinstance(v, VBool):
      return v.t
    if t == 'float' and isinstance(v, VFloat):
      return v.t
    if t in ('str', 'bytes') and isinstance(v, (VStr, VBytes)):
      return v.t
    if t == 'enum' and isinstance(v, VEnum) and v.enum.name == self.class_by_name(kind.arg).name:
      return v.t
    if t in ('ref', 'exc', 'list', 'dict', 'set', 'tuple'):
      if isinstance(v, VNone):
        if not kind.nullable:
          raise Unsupported('None stored in non-nullable %r' % kind)
        return z3.IntVal(0)
      if isinstance(v, VRef):
        return v.t
      if isinstance(v, VTuple):
        return self.box_tuple(st, v).t
    if t == 'fn':
      if isinstance(v, VNone) and kind.nullable:
        return z3.IntVal(0)
      if isinstance(v, VCallable):
        return v.t
    raise Unsupported('value %r does not fit declared kind %r' % (v, kind))

  def to_val(self, st, v):
    if isinstance(v, VTuple):
      v = self.box_tuple(st, v)
    if isinstance(v, VBool) and not z3.is_const(v.t):
      txt = v.t.sexpr()
      if '(forall' in txt or '(exists' in txt:
        # a quantified formula cannot be skolemised / instantiated once buried inside a datatype term: name it
        b = fresh('qb', z3.BoolSort())
        st.axiom(b == v.t)
        return Val.VB(b)
    return vv.to_val(v)

  def from_val(self, st, term, hint=None, assume_shape=True, check=False):
    """Universal-sort term -> V using the static hint (shape invariant: assumed on read, checked on write)."""
    if hint is None:
      return VVal(term)
    if hint.tag == 'val':
      if hint.tags:
        if assume_shape:
          st.axiom(z3.Or(*[self.recog(tag, term) for tag in hint.tags]))
        st.tags.setdefault(term.get_id(), tuple(hint.tags))
      return VVal(term)
    t = hint.tag

    def need(cond):
      if assume_shape:
        st.axiom(cond)
      elif check:
        self.safety(st, cond, 'shape', 'value fits %r' % (hint,))
    if t == 'int':
      need(Val.is_VI(term)); return VInt(Val.i(term))
    if t == 'bool':
      need(Val.is_VB(term)); return VBool(Val.b(term))
    if t == 'float':
      need(Val.is_VF(term)); return VFloat(Val.f(term))
    if t == 'str':
      need(Val.is_VS(term)); return VStr(Val.s(term))
    if t == 'bytes':
      need(Val.is_VY(term)); return VBytes(Val.y(term))
    if t == 'enum':
      e = self.class_by_name(hint.arg)
      need(z3.And(Val.is_VE(term), Val.e(term) == e.uid, Val.m(term) >= 0, Val.m(term) < len(e.members)))
      return VEnum(e, Val.m(term))
    if t in ('ref', 'exc', 'list', 'dict', 'set', 'tuple'):
      if hint.nullable:
        need(z3.Or(Val.is_VN(term), z3.And(Val.is_VR(term), Val.r(term) != 0)))
        r = z3.If(Val.is_VN(term), z3.IntVal(0), Val.r(term))
      else:
        need(z3.And(Val.is_VR(term), Val.r(term) != 0))
        r = Val.r(term)
      if t in ('ref', 'exc'):
        return VRef(self.class_by_name(hint.arg) if hint.arg else None, r, nullable=hint.nullable)
      if t in ('list', 'tuple') and assume_shape:
        st.axiom(z3.Select(st.harr(('list', 'len'), I), r) >= 0)
      return VRef(t, r, nullable=hint.nullable, elem=hint.elem, keykind=hint.key)
    if t == 'fn':
      if hint.nullable:
        need(z3.Or(Val.is_VN(term), Val.is_VC(term)))
        return VCallable(z3.If(Val.is_VN(term), z3.IntVal(0), Val.c(term)), label=hint.arg or 'fn', nullable=True)
      need(Val.is_VC(term))
      return VCallable(Val.c(term), label=hint.arg or 'fn')
    raise Unsupported('from_val hint %r' % (hint,))

  # ------------------------------------------------------------------ allocation
  def alloc(self, st, cls, exact=True, elem=None):
    oid = st.next_oid
    st.next_oid += 1
    ref = VRef(cls, oid, exact=exact, elem=elem)
    if isinstance(cls, ClassInfo):
      st.axiom(st.classof(z3.IntVal(oid)) == cls.uid)
    elif cls in ('list', 'dict', 'set', 'tuple'):
      st.axiom(st.classof(z3.IntVal(oid)) == -vv.TYPE_IDS[cls])
    return ref

  def oid_of(self, ref):
    """Concrete object id or None."""
    t = ref.t
    if z3.is_int_value(t):
      return t.as_long()
    s = z3.simplify(t)
    if z3.is_int_value(s):
      return s.as_long()
    return None

  # ------------------------------------------------------------------ object fields
  def read_field(self, st, obj, name):
    """Returns V or None if the field is unknown."""
    oid = self.oid_of(obj)
    fk = self.field_kind(obj.cls, name)
    if fk is not None:
      owner, kind = fk
      if kind.tag == 'py':
        if oid is None:
          raise Unsupported('python-side field %s on symbolic reference' % name)
        return st.pyheap.get((oid, name))
      is_ref = kind.tag in ('ref', 'exc', 'list', 'dict', 'set', 'tuple')
      arr = st.harr((owner, name), kind.sort(), is_ref=is_ref, owned=getattr(kind, 'owned', False))
      term = z3.Select(arr, obj.t)
      if kind.tag in ('list', 'dict', 'set', 'tuple') and (owner, name) in st.private_keys:
        # remembered so that a later havoc by opaque user code can state "this private container kept its contents"
        # as a ground fact about this very object (besides the quantified frame axiom)
        seen = st.ghost.get('$private_reads', frozenset())
        if len(seen) < 40:
          st.ghost['$private_reads'] = seen | {((owner, name), obj.t)}
      if is_ref and z3.is_const(arr) and arr.decl().name().startswith('H0_'):
        # ground instance of the pre-state freshness axiom (saves the solver an instantiation)
        st.axiom(z3.Implies(obj.t < ALLOC_BASE_, z3.And(term >= 0, term < ALLOC_BASE_)))
      if is_ref and not kind.nullable:
        st.axiom(term != 0)          # shape invariant: the field is declared non-optional
      v = self.wrap(st, term, kind)
      if kind.tag in ('list', 'tuple'):
        st.axiom(z3.Select(st.harr(('list', 'len'), I), term) >= 0)      # lengths are never negative
      return v
    if oid is not None:
      return st.pyheap.get((oid, name))
    return None

  def write_field(self, st, obj, name, value):
    oid = self.oid_of(obj)
    fk = self.field_kind(obj.cls, name)
    if fk is not None and fk[1].tag != 'py':
      owner, kind = fk
      arr = st.harr((owner, name), kind.sort())
      st.heap[(owner, name)] = z3.Store(arr, obj.t, self.unwrap(st, value, kind))
      return
    if oid is None:
      raise Unsupported('write to undeclared field %s of symbolic reference (declare its shape)' % name)
    st.pyheap[(oid, name)] = value

  def has_field(self, st, obj, name):
    if self.field_kind(obj.cls, name) is not None:
      return True
    oid = self.oid_of(obj)
    return oid is not None and (oid, name) in st.pyheap

  # ------------------------------------------------------------------ lists (also boxed tuples)
  def list_len(self, st, lst):
    return z3.Select(st.harr(('list', 'len'), I), lst.t)

  def list_items(self, st, lst):
    return z3.Select(st.harr(('list', 'items'), ARR_IV), lst.t)

  def list_set(self, st, lst, length=None, items=None):
    if length is not None:
      st.heap[('list', 'len')] = z3.Store(st.harr(('list', 'len'), I), lst.t, length)
    if items is not None:
      st.heap[('list', 'items')] = z3.Store(st.harr(('list', 'items'), ARR_IV), lst.t, items)

  def new_list(self, st, values, elem=None, cls='list'):
    lst = self.alloc(st, cls, elem=elem)
    items = z3.K(I, Val.VN)
    for i, v in enumerate(values):
      items = z3.Store(items, i, self.to_val(st, v))
    self.list_set(st, lst, z3.IntVal(len(values)), items)
    return lst

  def box_tuple(self, st, tup):
    return self.new_list(st, tup.items, cls='tuple')

  def list_get(self, st, lst, idx_term):
    return self.from_val(st, z3.Select(self.list_items(st, lst), idx_term), lst.elem)

  def list_append(self, st, lst, v):
    n = self.list_len(st, lst)
    self.list_set(st, lst, n + 1, z3.Store(self.list_items(st, lst), n, self.to_val(st, v)))

  def concrete_len(self, st, lst):
    n = z3.simplify(self.list_len(st, lst))
    if z3.is_int_value(n):
      return n.as_long()
    return None

  def list_values(self, st, lst):
    """Python list of element V's when the length is concrete, else None."""
    n = self.concrete_len(st, lst)
    if n is None or n > 64:
      return None
    return [self.list_get(st, lst, z3.IntVal(i)) for i in range(n)]

  # ------------------------------------------------------------------ dicts / sets
  def dict_dom(self, st, d):
    return z3.Select(st.harr(('dict', 'dom'), ARR_VB), d.t)

  def dict_val(self, st, d):
    return z3.Select(st.harr(('dict', 'val'), ARR_VV), d.t)

  def dict_keys(self, st, d):
    """Ghost list object holding the keys in insertion order (ref)."""
    arr = st.harr(('dict', 'keys'), I, is_ref=True)
    term = z3.Select(arr, d.t)
    if z3.is_const(arr) and arr.decl().name().startswith('H0_'):
      st.axiom(z3.Implies(d.t < ALLOC_BASE_, z3.And(term >= 0, term < ALLOC_BASE_)))
    return VRef('list', term, elem=getattr(d, 'keykind', None))

  def dict_set_raw(self, st, d, dom=None, val=None, keys=None):
    self.drop_keypos(st, d)
    if dom is not None:
      st.heap[('dict', 'dom')] = z3.Store(st.harr(('dict', 'dom'), ARR_VB), d.t, dom)
    if val is not None:
      st.heap[('dict', 'val')] = z3.Store(st.harr(('dict', 'val'), ARR_VV), d.t, val)
    if keys is not None:
      st.heap[('dict', 'keys')] = z3.Store(st.harr(('dict', 'keys'), I), d.t, keys)

  def new_dict(self, st, pairs=(), elem=None, cls='dict'):
    d = self.alloc(st, cls, elem=elem)
    dom = z3.K(Val, z3.BoolVal(False))
    val = z3.K(Val, Val.VN)
    keys = self.new_list(st, [])
    self.dict_set_raw(st, d, dom, val, keys.t)
    for k, v in pairs:
      self.dict_store(st, d, k, v)
    return d

  def key_value(self, st, term, keykind):
    """A dict key as a value: the raw term (no projection) with its declared shape recorded as tag knowledge."""
    if keykind is not None and keykind.tag in ('str', 'int', 'bytes', 'bool', 'float'):
      st.tags.setdefault(term.get_id(), keykind.tag)
      st.axiom(self.recog(keykind.tag, term))
      return VVal(term)
    return self.from_val(st, term, keykind)

  def dict_has(self, st, d, k):
    return z3.Select(self.dict_dom(st, d), self.to_val(st, k))

  def dict_load(self, st, d, k):
    return self.from_val(st, z3.Select(self.dict_val(st, d), self.to_val(st, k)), d.elem)

  def dict_store(self, st, d, k, v):
    kt = self.to_val(st, k)
    present = z3.Select(self.dict_dom(st, d), kt)
    keys = self.dict_keys(st, d)
    n = self.list_len(st, keys)
    items = self.list_items(st, keys)
    # insertion order: append the key iff it was absent
    self.list_set(st, keys, z3.If(present, n, n + 1), z3.If(present, items, z3.Store(items, n, kt)))
    self.dict_set_raw(st, d, z3.Store(self.dict_dom(st, d), kt, z3.BoolVal(True)),
                      z3.Store(self.dict_val(st, d), kt, self.to_val(st, v)))

  def keypos_fn(self, st, d):
    """Position function of the dict (creates and assumes well-formedness on first use in this state lineage).

    Registered per state under the dict reference; a mutation of a dict drops the registrations of every dict that may
    be the same object, so a function is never assumed well-formed for two different contents."""
    key = ('$keypos', d.t.get_id())
    ent = st.ghost.get(key)
    if ent is None:
      self.__dict__['_keypos_n'] = self.__dict__.get('_keypos_n', 0) + 1
      pos = z3.Function('keypos!%d' % self._keypos_n, Val, I)
      st.ghost[key] = (pos, d.t)
      st.axiom(self._dict_wf(st, d, pos))
      return pos
    return ent[0]

  def drop_keypos(self, st, d=None):
    for k in [k for k in st.ghost if isinstance(k, tuple) and k[0] == '$keypos']:
      ref = st.ghost[k][1]
      if d is not None:
        same = z3.simplify(ref == d.t)
        if z3.is_false(same) or (not z3.is_true(same) and not self.feasible(st, same)):
          continue
      del st.ghost[k]

  def dict_wf(self, st, d):
    self.keypos_fn(st, d)
    return z3.BoolVal(True)

  def _dict_wf(self, st, d, pos):
    """Well-formedness of the key list w.r.t. the domain (assumed for dicts that are iterated).

    Skolemised: a position function pos with keys[pos(k)] == k for every k in the domain and pos(keys[i]) == i for every
    index (hence distinct keys)."""
    if pos is None:
      return None
    keys = self.dict_keys(st, d)
    n = self.list_len(st, keys)
    items = self.list_items(st, keys)
    dom = self.dict_dom(st, d)
    i = z3.Int('wf_i')
    k = z3.Const('wf_k', Val)
    shape = []
    kk = getattr(d, 'keykind', None)
    if kk is not None and kk.tag in vv.RECOG:
      shape.append(z3.ForAll([k], z3.Implies(z3.Select(dom, k), self.recog(kk.tag, k))))
    return z3.And(
        n >= 0, keys.t != 0, *(shape + [
        z3.ForAll([i], z3.Implies(z3.And(0 <= i, i < n), z3.And(z3.Select(dom, z3.Select(items, i)), pos(z3.Select(items, i)) == i))),
        z3.ForAll([k], z3.Implies(z3.Select(dom, k), z3.And(pos(k) >= 0, pos(k) < n, z3.Select(items, pos(k)) == k)))]))
