"""Value operations: truthiness, comparison, arithmetic, tag resolution (forking)."""
import z3
z3.set_param("smt.mbqi", False)

from pyvc import values as vv
from pyvc.values import (Val, V, VNone, NONE, VBool, VInt, VFloat, VStr, VBytes, VEnum, VRef, VVal, VTuple,
                         VClass, VCallable, VOpaque, VFunc, VBuiltin, VModule, Raised, Unsupported, fresh, F64, RNE)
from pyvc.loader import ClassInfo, EnumInfo

CMP = {'Lt': '<', 'LtE': '<=', 'Gt': '>', 'GtE': '>=', 'Eq': '==', 'NotEq': '!='}


class OpsMixin(object):

  # ------------------------------------------------------------------ feasibility / branching
  def feasible(self, st, cond=None):
    if cond is not None:
      if z3.is_true(cond):
        return True
      if z3.is_false(cond):
        return False
    self.ctx.feas_calls += 1
    s = z3.Solver()
    s.set('timeout', 400)
    for c in st.pc:
      s.add(c)
    if cond is not None:
      s.add(cond)
    import time as _t, os as _os
    t0 = _t.time()
    r = s.check()
    if r == z3.unknown:
      # quantified hypotheses make the quick check time out: infeasibility shown from the quantifier-free part alone is
      # still infeasibility
      s = z3.Solver()
      s.set('timeout', 400)
      for c in st.pc:
        if not z3.is_quantifier(c) and not (z3.is_and(c) and c.num_args() == 1 and z3.is_quantifier(c.arg(0))):
          s.add(c)
      if cond is not None:
        s.add(cond)
      if s.check() == z3.unsat:
        r = z3.unsat
    if _os.environ.get('PYVC_DEBUG') and _t.time() - t0 > 0.3:
      print('slow feasibility %.2fs -> %s  pc=%d cond=%s' % (_t.time() - t0, r, len(st.pc), str(cond)[:120]))
    return r != z3.unsat      # unknown counts as feasible (over-approximation is sound)

  def branch(self, st, cond):
    """[(state, True/False)] for the feasible sides of cond."""
    c = z3.simplify(cond)
    if z3.is_true(c):
      return [(st, True)]
    if z3.is_false(c):
      return [(st, False)]
    out = []
    if self.spec_mode:
      s2 = st.fork()
      st.assume(c)
      s2.assume(z3.Not(c))
      return [(st, True), (s2, False)]
    t_ok = self.feasible(st, c)
    f_ok = True if not t_ok else self.feasible(st, z3.Not(c))
    if t_ok and f_ok:
      s2 = st.fork()
      st.assume(c)
      s2.assume(z3.Not(c))
      return [(st, True), (s2, False)]
    if t_ok:
      st.assume(c)
      return [(st, True)]
    if f_ok:
      st.assume(z3.Not(c))
      return [(st, False)]
    return []

  # ------------------------------------------------------------------ VVal resolution
  def resolve(self, st, v, tags=None):
    """Fork a VVal into its typed alternatives: [(state, typed V)]."""
    if not isinstance(v, VVal):
      return [(st, v)]
    t = v.t
    key = t.get_id()
    known = st.tags.get(key)
    if isinstance(known, tuple):
      allowed, known = known, None
    else:
      allowed = None
    out = []
    if known:
      alive = [known]
    elif allowed is not None:
      alive = [a for a in allowed if tags is None or a in tags]
      if len(alive) > 1:
        alive = [a for a in alive if self.feasible(st, self.recog(a, t))]
    else:
      alive = []
      for tag in list(tags or vv.TAGS):
        if self.feasible(st, self.recog(tag, t)):
          alive.append(tag)
    for n, tag in enumerate(alive):
      s = st if n == len(alive) - 1 else st.fork()
      if not known:
        s.assume(self.recog(tag, t))
        s.tags[key] = tag
      out.append((s, self.typed(s, t, tag)))
    return out

  def recog(self, tag, t):
    """Recogniser of a (possibly compound) tag: 'int', 'enum:Outcome', 'ref:ExceptionInfo', ..."""
    if ':' not in tag:
      return vv.recog(tag, t)
    head, name = tag.split(':', 1)
    c = self.class_by_name(name)
    if head == 'enum':
      return z3.And(Val.is_VE(t), Val.e(t) == c.uid, Val.m(t) >= 0, Val.m(t) < len(c.members))
    if head == 'ref':
      if isinstance(c, str):
        return z3.And(Val.is_VR(t), Val.r(t) != 0)
      subs = self.ctx.registry.subclasses(c)
      return z3.And(Val.is_VR(t), Val.r(t) != 0, z3.Or(*[st_classof(self, Val.r(t)) == x.uid for x in subs]))
    if head == 'fn':
      return Val.is_VC(t)
    raise Unsupported('tag ' + tag)

  def typed(self, st, t, tag):
    if ':' in tag:
      head, name = tag.split(':', 1)
      c = self.class_by_name(name)
      if head == 'enum':
        return VEnum(c, Val.m(t))
      if head == 'ref':
        return VRef(c, Val.r(t))
      if head == 'fn':
        return VCallable(Val.c(t), label=name)
    if tag == 'none':
      return NONE
    if tag == 'bool':
      return VBool(Val.b(t))
    if tag == 'int':
      return VInt(Val.i(t))
    if tag == 'float':
      return VFloat(Val.f(t))
    if tag == 'str':
      return VStr(Val.s(t))
    if tag == 'bytes':
      return VBytes(Val.y(t))
    if tag == 'ref':
      # a reference of unknown class: a builtin container when the path says so
      for cname in ('dict', 'list', 'tuple', 'set'):
        tid = vv.TYPE_IDS.get(cname)
        if tid is not None and not self.feasible(st, st.classof(Val.r(t)) != -tid):
          return VRef(cname, Val.r(t))
      return VRef(None, Val.r(t))
    if tag == 'type':
      tid = z3.simplify(Val.t(t))
      if z3.is_int_value(tid):
        return self.type_from_id(tid.as_long())
      # fork over builtin converter types
      return VTypeSym(Val.t(t))
    if tag == 'enum':
      e = z3.simplify(Val.e(t))
      if z3.is_int_value(e):
        for en in self.ctx.registry.all_enums():
          if en.uid == e.as_long():
            return VEnum(en, Val.m(t))
      raise Unsupported('enum value of unknown enum class')
    if tag == 'fn':
      return VCallable(Val.c(t))
    raise Unsupported('tag ' + tag)

  def type_from_id(self, n):
    if n in vv.TYPE_NAMES:
      return VClass(vv.TYPE_NAMES[n])
    for c in self.ctx.registry.all_classes():
      if 1000 + c.uid == n:
        return VClass(c)
    raise Unsupported('unknown type id %d' % n)

  def resolve_type(self, st, v):
    """VTypeSym -> forks over builtin converter types int/float/str/bool."""
    if not isinstance(v, VTypeSym):
      return [(st, v)]
    out = []
    for name in ('int', 'float', 'str', 'bool'):
      c = v.t == vv.TYPE_IDS[name]
      if self.feasible(st, c):
        s = st.fork()
        s.assume(c)
        out.append((s, VClass(name)))
    rest = z3.And(*[v.t != vv.TYPE_IDS[n] for n in ('int', 'float', 'str', 'bool')])
    if self.feasible(st, rest):
      raise Unsupported('type object outside {int,float,str,bool}: restrict in requires')
    return out

  # ------------------------------------------------------------------ truthiness
  def truth(self, st, v):
    """[(state, z3 Bool)]"""
    if isinstance(v, VVal):
      if self.views(st, v) is None and not isinstance(st.tags.get(v.t.get_id()), (str, tuple)):
        # value of unknown type: truthiness as one term (scalars by their rules, objects by an uninterpreted predicate)
        t = v.t
        tr = z3.Function('truthy_object', z3.IntSort(), z3.BoolSort())
        term = z3.If(Val.is_VN(t), z3.BoolVal(False),
               z3.If(Val.is_VB(t), Val.b(t),
               z3.If(Val.is_VI(t), Val.i(t) != 0,
               z3.If(Val.is_VF(t), z3.Not(vv.f_iszero(Val.f(t))),
               z3.If(Val.is_VS(t), z3.Length(Val.s(t)) > 0,
               z3.If(Val.is_VY(t), z3.Length(Val.y(t)) > 0,
               z3.If(Val.is_VR(t), tr(Val.r(t)), z3.BoolVal(True))))))))
        return [(st, term)]
      out = []
      for s, tv in self.resolve(st, v):
        out.extend(self.truth(s, tv))
      return out
    if isinstance(v, VNone):
      return [(st, z3.BoolVal(False))]
    if isinstance(v, VBool):
      return [(st, v.t)]
    if isinstance(v, VInt):
      return [(st, v.t != 0)]
    if isinstance(v, VFloat):
      return [(st, z3.Not(vv.f_iszero(v.t)))]
    if isinstance(v, (VStr, VBytes)):
      return [(st, z3.Length(v.t) > 0)]
    if isinstance(v, VTuple):
      return [(st, z3.BoolVal(len(v.items) > 0))]
    if isinstance(v, VEnum):
      return [(st, z3.BoolVal(True))]
    if isinstance(v, VCallable):
      return [(st, v.t != 0 if v.nullable else z3.BoolVal(True))]
    if isinstance(v, (VFunc, VBuiltin, VClass, VModule, VOpaque)):
      return [(st, z3.BoolVal(True))]
    if isinstance(v, VRef):
      nn = (v.t != 0) if v.nullable else z3.BoolVal(True)
      if v.cls in ('list', 'tuple'):
        return [(st, z3.And(nn, self.list_len(st, v) > 0))]
      if v.cls in ('dict', 'set'):
        n = self.list_len(st, self.dict_keys(st, v))
        return [(st, z3.And(nn, n > 0))]
      if isinstance(v.cls, ClassInfo):
        for special in ('__bool__', '__len__'):
          m = v.cls.find_method(special)
          if m is not None:
            out = []
            for s, r in self.call_function(st, m, [VRef(v.cls, v.t, exact=v.exact)], {}):
              if isinstance(r, Raised):
                raise Unsupported('__bool__ raising')
              out.extend(self.truth(s, r))
            if v.nullable:
              out = [(s, z3.And(nn, b)) for s, b in out]
            return out
      return [(st, nn)]
    raise Unsupported('truth of %r' % (v,))

  def truth_branch(self, st, v):
    out = []
    for s, b in self.truth(st, v):
      out.extend(self.branch(s, b))
    return out

  # ------------------------------------------------------------------ identity / equality / ordering
  def is_same(self, st, a, b):
    """`a is b` -> z3 Bool (no forking; VVal compared structurally where sound)."""
    if isinstance(a, VVal) or isinstance(b, VVal):
      if isinstance(a, (VVal, VNone, VBool, VEnum, VRef, VClass, VCallable)) and \
         isinstance(b, (VVal, VNone, VBool, VEnum, VRef, VClass, VCallable)):
        return self.to_val(st, a) == self.to_val(st, b)
      raise Unsupported('is on %r / %r' % (a, b))
    if isinstance(a, VNone) or isinstance(b, VNone):
      o = b if isinstance(a, VNone) else a
      if isinstance(o, VNone):
        return z3.BoolVal(True)
      if isinstance(o, VRef):
        return o.t == 0 if o.nullable else z3.BoolVal(False)
      if isinstance(o, VCallable):
        return o.t == 0 if o.nullable else z3.BoolVal(False)
      return z3.BoolVal(False)
    if isinstance(a, VRef) and isinstance(b, VRef):
      return a.t == b.t
    if isinstance(a, VEnum) and isinstance(b, VEnum):
      if a.enum is not b.enum:
        return z3.BoolVal(False)
      return a.t == b.t
    if isinstance(a, VBool) and isinstance(b, VBool):
      return a.t == b.t
    if isinstance(a, VClass) and isinstance(b, VClass):
      return z3.BoolVal(a.cls is b.cls or a.cls == b.cls)
    if isinstance(a, VCallable) and isinstance(b, VCallable):
      return a.t == b.t
    if isinstance(a, VTypeSym) or isinstance(b, VTypeSym):
      ta = a.t if isinstance(a, VTypeSym) else (vv.to_val(a) if isinstance(a, VClass) else None)
      tb = b.t if isinstance(b, VTypeSym) else (vv.to_val(b) if isinstance(b, VClass) else None)
      if ta is None or tb is None:
        return z3.BoolVal(False)
      ta = Val.t(ta) if ta.sort() == Val else ta
      tb = Val.t(tb) if tb.sort() == Val else tb
      return ta == tb
    if type(a) is not type(b):
      return z3.BoolVal(False)
    if isinstance(a, VFunc) and isinstance(b, VFunc):
      return z3.BoolVal(a.finfo is b.finfo and a.bound is b.bound)
    raise Unsupported('is on %r / %r' % (a, b))

  SCALAR_TAGS = ('none', 'bool', 'int', 'float', 'str', 'bytes')

  def views(self, st, v):
    """Non-forking case view of a value: [(cond, typed V)] or None when a non-scalar tag is possible."""
    if not isinstance(v, VVal):
      if isinstance(v, (VNone, VBool, VInt, VFloat, VStr, VBytes, VEnum)):
        return [(z3.BoolVal(True), v)]
      return None
    known = st.tags.get(v.t.get_id())
    if isinstance(known, str):
      tags = (known,)
    elif isinstance(known, tuple):
      tags = known
    else:
      return None
    if any(t not in self.SCALAR_TAGS and not t.startswith('enum:') for t in tags):
      return None
    if len(tags) == 1:
      return [(z3.BoolVal(True), self.typed(st, v.t, tags[0]))]
    return [(self.recog(t, v.t), self.typed(st, v.t, t)) for t in tags]

  def compare(self, st, op, a, b):
    """Python comparison a <op> b: [(state, V bool | Raised)]."""
    if isinstance(a, VVal) or isinstance(b, VVal):
      va, vb = self.views(st, a), self.views(st, b)
      if va is not None and vb is not None:
        oks, errs = [], []
        for ca, ta in va:
          for cb, tb in vb:
            r = self._compare_pure(op, ta, tb)
            g = z3.And(ca, cb)
            if r is None:
              errs.append(g)
            else:
              oks.append(z3.And(g, r))
        err = z3.simplify(z3.Or(*errs)) if errs else z3.BoolVal(False)
        out = []
        for s, e in self.branch(st, err):
          if e:
            out.append((s, self.raise_builtin(s, 'TypeError', "'%s' not supported between these types" % op)))
          else:
            out.append((s, VBool(z3.Or(*oks) if oks else z3.BoolVal(False))))
        return out
      if op in ('==', '!=') and isinstance(a, (VVal, VNone, VBool, VInt, VStr, VBytes, VEnum)) and \
         isinstance(b, (VVal, VNone, VBool, VInt, VStr, VBytes, VEnum)):
        # equality of values of unknown type: structural equality in the universal sort (int/float cross-type
        # equality such as 1 == 1.0 is not covered: floats are excluded above)
        eq = self.to_val(st, a) == self.to_val(st, b)
        return [(st, VBool(eq if op == '==' else z3.Not(eq)))]
    out = []
    for s1, ra in self.resolve(st, a):
      for s2, rb in self.resolve(s1, b):
        out.extend(self._compare(s2, op, ra, rb))
    return out

  def _compare_pure(self, op, a, b):
    """Scalar comparison as a z3 Bool; None means TypeError."""
    if isinstance(a, VBool) and isinstance(b, VBool) and op in ('==', '!='):
      return a.t == b.t if op == '==' else a.t != b.t
    ia, ib = vv.as_intlike(a), vv.as_intlike(b)
    if ia is not None and ib is not None:
      return vv.cmp_int_int(op, ia, ib)
    if isinstance(a, VFloat) and isinstance(b, VFloat):
      return vv.cmp_fp_fp(op, a.t, b.t)
    if ia is not None and isinstance(b, VFloat):
      return vv.cmp_int_fp(op, ia, b.t)
    if isinstance(a, VFloat) and ib is not None:
      return vv.cmp_int_fp(op, ib, a.t, swapped=True)
    if isinstance(a, VStr) and isinstance(b, VStr):
      return vv.cmp_str_str(op, a.t, b.t)
    if isinstance(a, VBytes) and isinstance(b, VBytes):
      return vv.cmp_str_str(op, a.t, b.t)
    if isinstance(a, VEnum) and isinstance(b, VEnum) and op in ('==', '!='):
      eq = z3.And(a.t == b.t) if a.enum is b.enum else z3.BoolVal(False)
      return eq if op == '==' else z3.Not(eq)
    if op == '==':
      return z3.BoolVal(isinstance(a, VNone) and isinstance(b, VNone))
    if op == '!=':
      return z3.BoolVal(not (isinstance(a, VNone) and isinstance(b, VNone)))
    return None

  def _compare(self, st, op, a, b):
    if isinstance(a, VBool) and isinstance(b, VBool) and op in ('==', '!='):
      return [(st, VBool(a.t == b.t if op == '==' else a.t != b.t))]
    ia, ib = vv.as_intlike(a), vv.as_intlike(b)
    if ia is not None and ib is not None:
      return [(st, VBool(vv.cmp_int_int(op, ia, ib)))]
    if isinstance(a, VFloat) and isinstance(b, VFloat):
      return [(st, VBool(vv.cmp_fp_fp(op, a.t, b.t)))]
    if ia is not None and isinstance(b, VFloat):
      return [(st, VBool(vv.cmp_int_fp(op, ia, b.t)))]
    if isinstance(a, VFloat) and ib is not None:
      return [(st, VBool(vv.cmp_int_fp(op, ib, a.t, swapped=True)))]
    if isinstance(a, (VStr, VBytes)) and type(a) is type(b):
      return [(st, VBool(vv.cmp_str_str(op, a.t, b.t)))]
    if op in ('==', '!='):
      eq = self.equals(st, a, b)
      if isinstance(eq, list):
        return [(s, VBool(z3.Not(e.t)) if op == '!=' and isinstance(e, VBool) else e) for s, e in eq]
      return [(st, VBool(eq if op == '==' else z3.Not(eq)))]
    # user-defined ordering is not modelled; everything else is a TypeError in CPython
    if isinstance(a, VRef) and isinstance(a.cls, ClassInfo) or isinstance(b, VRef) and isinstance(b.cls, ClassInfo):
      raise Unsupported('ordering on objects')
    return [(st, self.raise_builtin(st, 'TypeError', "'%s' not supported" % op))]

  def equals(self, st, a, b):
    """== on resolved values: z3 Bool, or list of (state, V) when __eq__ is inlined."""
    from pyvc.values import VSnap
    if isinstance(a, VSnap) and isinstance(b, VSnap) and a.how == b.how:
      if a.how == 'dict':
        k = fresh('eqk', Val)
        return z3.And(z3.ForAll([k], z3.Select(a.a, k) == z3.Select(b.a, k)),
                      z3.ForAll([k], z3.Implies(z3.Select(a.a, k), z3.Select(a.b, k) == z3.Select(b.b, k))))
      i = fresh('eqi', z3.IntSort())
      return z3.And(a.a == b.a, z3.ForAll([i], z3.Implies(z3.And(0 <= i, i < a.a), z3.Select(a.b, i) == z3.Select(b.b, i))))
    if isinstance(a, VRef) and isinstance(a.cls, ClassInfo):
      m = a.cls.find_method('__eq__')
      if m is not None:
        return self.call_function(st, m, [a, b], {})
      return self.is_same(st, a, b) if isinstance(b, (VRef, VNone)) else z3.BoolVal(False)
    if isinstance(b, VRef) and isinstance(b.cls, ClassInfo):
      m = b.cls.find_method('__eq__')
      if m is not None:
        return self.call_function(st, m, [b, a], {})
      return z3.BoolVal(False)
    if isinstance(a, VTuple) and isinstance(b, VTuple):
      if len(a.items) != len(b.items):
        return z3.BoolVal(False)
      conj = []
      for x, y in zip(a.items, b.items):
        rs = self.compare(st, '==', x, y)
        if len(rs) != 1 or isinstance(rs[0][1], Raised):
          raise Unsupported('tuple == needs forking')
        conj.append(rs[0][1].t)
      return z3.And(*conj) if conj else z3.BoolVal(True)
    if isinstance(a, VRef) and isinstance(b, VRef) and a.cls in ('list', 'tuple') and b.cls in ('list', 'tuple'):
      if a.cls != b.cls:
        return z3.BoolVal(False)
      na, nb = self.list_len(st, a), self.list_len(st, b)
      i = fresh('eqi', z3.IntSort())
      ia, ib = self.list_items(st, a), self.list_items(st, b)
      return z3.And(na == nb, z3.ForAll([i], z3.Implies(z3.And(0 <= i, i < na), z3.Select(ia, i) == z3.Select(ib, i))))
    if isinstance(a, VRef) and isinstance(b, VRef) and a.cls == b.cls == 'dict':
      return z3.And(self.dict_dom(st, a) == self.dict_dom(st, b),
                    z3.ForAll([z3.Const('eqk', Val)], z3.Implies(
                        z3.Select(self.dict_dom(st, a), z3.Const('eqk', Val)),
                        z3.Select(self.dict_val(st, a), z3.Const('eqk', Val)) ==
                        z3.Select(self.dict_val(st, b), z3.Const('eqk', Val)))))
    if isinstance(a, VOpaque) or isinstance(b, VOpaque):
      if isinstance(a, VOpaque) and isinstance(b, VOpaque) and a.t.sort() == b.t.sort():
        return a.t == b.t
      return z3.BoolVal(False)
    try:
      return self.is_same(st, a, b)
    except Unsupported:
      return z3.BoolVal(False)

  # ------------------------------------------------------------------ arithmetic
  def to_float(self, st, v):
    """int-like -> fp with the OverflowError safety obligation; float unchanged."""
    if isinstance(v, VFloat):
      return v.t
    i = vv.as_intlike(v)
    if i is None:
      raise Unsupported('to_float %r' % (v,))
    if not isinstance(v, VBool):
      self.safety(st, z3.And(i < vv.INT_FLOAT_LIMIT, i > -vv.INT_FLOAT_LIMIT), 'overflow', 'int too large to convert to float')
    for f in vv.int_to_fp_facts(i):
      st.axiom(f)
    return vv.int_to_fp(i)

  def arith(self, st, op, a, b):
    """[(state, V | Raised)] for a <op> b with op in + - * / // % **."""
    if (isinstance(a, VVal) or isinstance(b, VVal)) and op in ('+', '-', '*', '/'):
      va, vb = self.views(st, a), self.views(st, b)
      num = lambda t: vv.as_intlike(t) is not None or isinstance(t, VFloat)
      if va is not None and vb is not None and len(va) * len(vb) > 1 and any(num(t) for _, t in va) and any(num(t) for _, t in vb):
        return self.arith_cases(st, op, va, vb)
    out = []
    for s1, ra in self.resolve(st, a):
      for s2, rb in self.resolve(s1, b):
        out.append((s2, self._arith(s2, op, ra, rb)))
    return out

  def arith_cases(self, st, op, va, vb):
    """Numeric arithmetic over case views without forking: the result is a Val-sorted ite chain."""
    errs, cases, safes = [], [], []
    for ca, ta in va:
      for cb, tb in vb:
        g = z3.And(ca, cb)
        numeric = (vv.as_intlike(ta) is not None or isinstance(ta, VFloat)) and (vv.as_intlike(tb) is not None or isinstance(tb, VFloat))
        if not numeric:
          errs.append(g)
          continue
        sub = _SafetyCollector(self)
        r = sub.run(st, op, ta, tb)
        safes.extend(z3.Implies(g, c) for c in sub.conds)
        cases.append((g, self.to_val(st, r)))
    for c in safes:
      self.safety(st, c, 'arith', 'arithmetic %s: overflow / zero division' % op)
    err = z3.simplify(z3.Or(*errs)) if errs else z3.BoolVal(False)
    out = []
    for s, e in self.branch(st, err):
      if e:
        out.append((s, self.raise_builtin(s, 'TypeError', 'unsupported operand type(s) for %s' % op)))
      else:
        t = cases[-1][1]
        for g, r in reversed(cases[:-1]):
          t = z3.If(g, r, t)
        res = VVal(t)
        tags = []
        for g, r in cases:
          for tag in ('int', 'float'):
            if z3.is_true(z3.simplify(self.recog(tag, r))) and tag not in tags:
              tags.append(tag)
        if tags:
          s.tags[t.get_id()] = tuple(tags) if len(tags) > 1 else tags[0]
        out.append((s, res))
    return out

  def _arith(self, st, op, a, b):
    ia, ib = vv.as_intlike(a), vv.as_intlike(b)
    if op == '+':
      if isinstance(a, VStr) and isinstance(b, VStr):
        return VStr(z3.Concat(a.t, b.t))
      if isinstance(a, VBytes) and isinstance(b, VBytes):
        return VBytes(z3.Concat(a.t, b.t))
      if isinstance(a, VTuple) and isinstance(b, VTuple):
        return VTuple(a.items + b.items)
      if isinstance(a, VRef) and isinstance(b, VRef) and a.cls == b.cls == 'list':
        return self.list_concat(st, a, b)
    if op == '*' and isinstance(a, (VStr, VBytes)) and ib is not None:
      n = z3.simplify(ib)
      if z3.is_int_value(n):
        t = z3.StringVal('')
        for _ in range(max(0, n.as_long())):
          t = z3.Concat(t, a.t)
        return type(a)(t)
      raise Unsupported('str * symbolic int')
    if op == '%' and isinstance(a, (VStr, VBytes)):
      return self.str_percent(st, a, b)
    if ia is not None and ib is not None:
      if op == '+':
        return VInt(ia + ib)
      if op == '-':
        return VInt(ia - ib)
      if op == '*':
        return VInt(ia * ib)
      if op in ('//', '%'):
        # division by zero is an implicit exception: safety obligation
        self.safety(st, ib != 0, 'zerodiv', 'integer division by zero')
        # python floor semantics; z3 div with a positive divisor is floor
        q = z3.If(ib > 0, ia / ib, (-ia) / (-ib))
        if op == '//':
          return VInt(q)
        return VInt(ia - ib * q)
      if op == '/':
        self.safety(st, ib != 0, 'zerodiv', 'division by zero')
        return self.fl(st, '/', self.to_float(st, a), self.to_float(st, b))
      if op == '**':
        n, m0 = z3.simplify(ib), z3.simplify(ia)
        if z3.is_int_value(n) and z3.is_int_value(m0) and 0 <= n.as_long() <= 4096:
          return VInt(m0.as_long() ** n.as_long())
        if z3.is_int_value(n) and 0 <= n.as_long() <= 8:
          t = z3.IntVal(1)
          for _ in range(n.as_long()):
            t = t * ia
          return VInt(t)
      if op in ('&', '|', '^', '<<', '>>'):
        return self.bitop(st, op, ia, ib)
      raise Unsupported('int op ' + op)
    if (isinstance(a, VFloat) or ia is not None) and (isinstance(b, VFloat) or ib is not None):
      fa, fb = self.to_float(st, a), self.to_float(st, b)
      if op == '/':
        self.safety(st, z3.Not(vv.f_iszero(fb)), 'zerodiv', 'float division by zero')
      if op in ('+', '-', '*', '/'):
        return self.fl(st, op, fa, fb)
      raise Unsupported('float op ' + op)
    return self.raise_builtin(st, 'TypeError', 'unsupported operand type(s) for %s' % op)

  def fl(self, st, op, fa, fb):
    r, facts = vv.fl_arith(op, fa, fb)
    for f in facts:
      st.axiom(f)
    self.ctx.use_trusted('ieee-facts:fl_' + op)
    return VFloat(r)

  def bitop(self, st, op, a, b):
    """Bit operations on non-negative ints below 2^32 via bit-vectors (range is a safety obligation)."""
    lim = 2**32
    if op == '&':
      m = z3.simplify(b)
      if z3.is_int_value(m) and m.as_long() > 0 and (m.as_long() + 1) & m.as_long() == 0:
        # x & (2^k - 1) == x mod 2^k (python's & on negative ints follows two's complement, and so does mod)
        return VInt(a % (m.as_long() + 1))
    if op == '^':
      m = z3.simplify(b)
      if z3.is_int_value(m) and m.as_long() > 0 and (m.as_long() + 1) & m.as_long() == 0:
        # x ^ (2^k - 1) == (2^k - 1) - x  for 0 <= x < 2^k
        self.safety(st, z3.And(a >= 0, a <= m.as_long()), 'bitrange', 'left operand of ^ within the mask')
        return VInt(m.as_long() - a)
    self.safety(st, z3.And(a >= 0, a < lim), 'bitrange', 'left operand of %s within 0..2^32-1' % op)
    if op in ('<<', '>>'):
      n = z3.simplify(b)
      if not z3.is_int_value(n):
        raise Unsupported('shift by symbolic amount')
      k = 2 ** n.as_long()
      return VInt(a * k) if op == '<<' else VInt(a / k)
    self.safety(st, z3.And(b >= 0, b < lim), 'bitrange', 'right operand of %s within 0..2^32-1' % op)
    ba, bb = z3.Int2BV(a, 32), z3.Int2BV(b, 32)
    r = {'&': ba & bb, '|': ba | bb, '^': ba ^ bb}[op]
    return VInt(z3.BV2Int(r, is_signed=False))

  def unary(self, st, op, v):
    out = []
    if op == 'Not':
      return [(s2, VBool(z3.Not(b))) for s2, b in self.truth(st, v)]
    for s, r in self.resolve(st, v):
      if op == 'Not':
        for s2, b in self.truth(s, r):
          out.append((s2, VBool(z3.Not(b))))
      elif op == 'USub':
        i = vv.as_intlike(r)
        if i is not None:
          out.append((s, VInt(-i)))
        elif isinstance(r, VFloat):
          out.append((s, VFloat(vv.f_neg(r.t))))
        else:
          out.append((s, self.raise_builtin(s, 'TypeError', 'bad operand type for unary -')))
      elif op == 'UAdd':
        out.append((s, r))
      elif op == 'Invert':
        i = vv.as_intlike(r)
        if i is None:
          raise Unsupported('~ on non-int')
        out.append((s, VInt(-i - 1)))
      else:
        raise Unsupported('unary ' + op)
    return out

  def list_concat(self, st, a, b):
    na, nb = self.list_len(st, a), self.list_len(st, b)
    res = self.alloc(st, 'list', elem=a.elem)
    items = fresh('cat', z3.ArraySort(z3.IntSort(), Val))
    i = fresh('ci', z3.IntSort())
    ia, ib = self.list_items(st, a), self.list_items(st, b)
    st.assume(z3.ForAll([i], z3.Implies(z3.And(0 <= i, i < na), z3.Select(items, i) == z3.Select(ia, i))))
    st.assume(z3.ForAll([i], z3.Implies(z3.And(0 <= i, i < nb), z3.Select(items, na + i) == z3.Select(ib, i))))
    self.list_set(st, res, na + nb, items)
    return res


_CLASSOF = z3.Function('classof', z3.IntSort(), z3.IntSort())


def st_classof(ex, r):
  return _CLASSOF(r)


class _SafetyCollector(object):
  """Runs _arith on typed operands while collecting its safety conditions instead of emitting them."""

  def __init__(self, ex):
    self.ex = ex
    self.conds = []

  def run(self, st, op, a, b):
    ex = self.ex
    ex.safety = lambda st_, cond, kind, msg, node=None: self.conds.append(cond)
    try:
      return ex._arith(st, op, a, b)
    finally:
      del ex.safety


class VTypeSym(V):
  """A type object whose identity is symbolic (converter fields such as InRange._type)."""

  def __init__(self, t):
    self.t = t
