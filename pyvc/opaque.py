"""Behaviour specs for opaque (user-supplied) callables."""
import z3

from pyvc import values as vv
from pyvc.values import Val, VVal, VBool, VNone, NONE, Raised, parse_kind, Unsupported, fresh


def pure_function(name, result_kind, nargs=1, facts=None):
  """Deterministic total function of (callable id, arguments): result = F(id, args...)."""
  kind = parse_kind(result_kind)

  def spec(ex, st, fn, pos, kwargs):
    if kwargs or len(pos) != nargs:
      raise Unsupported('opaque pure function %s called with unexpected arguments' % name)
    f = z3.Function('op_' + name, *([z3.IntSort()] + [Val] * nargs + [kind.sort()]))
    t = f(fn.t, *[ex.to_val(st, a) for a in pos])
    v = ex.wrap(st, t, kind)
    if facts:
      for c in facts(t):
        st.axiom(c)
    return [(st, v)]
  return spec


def effectful(name, result_kind='val', may_raise=('Exception',), log=True):
  """Arbitrary user code: logged call, arbitrary result of the given kind, may raise the listed exception classes."""
  kind = parse_kind(result_kind)

  def spec(ex, st, fn, pos, kwargs):
    out = []
    if log:
      ex.event(st, ('call', name, fn.t, tuple(pos)))
    exits = [None] + list(may_raise)
    for n, e in enumerate(exits):
      s = st.fork() if n < len(exits) - 1 else st
      if e is None:
        if kind.tag == 'none':
          out.append((s, NONE))
        else:
          out.append((s, ex.wrap(s, fresh('ret_' + name, kind.sort()), kind)))
      else:
        exc = ex.make_exception(s, e, exact=False)
        out.append((s, Raised(exc)))
    return out
  return spec
