"""Behaviour specs for opaque (user-supplied) callables."""
import z3

from pyvc import values as vv
from pyvc.values import Val, VVal, VBool, VNone, NONE, Raised, VRef, parse_kind, Unsupported, fresh


def pure_function(name, result_kind, nargs=1, facts=None):
  """Deterministic total function of (callable id, arguments): result = F(id, args...)."""
  kind = parse_kind(result_kind)

  def spec(ex, st, fn, pos, kwargs):
    if kwargs or len(pos) != nargs:
      raise Unsupported('opaque pure function %s called with unexpected arguments' % name)
    f = z3.Function('op_' + name, *([z3.IntSort()] + [Val] * nargs + [kind.sort()]))
    t = f(fn.t, *[ex.to_val(st, a) for a in pos])
    v = ex.wrap(st, t, kind)
    if facts:
      for c in facts(t):
        st.axiom(c)
    return [(st, v)]
  return spec


def effectful(name, result_kind='val', may_raise=('Exception',), log=True, havoc=()):
  """Arbitrary user code: logged call, arbitrary result of the given kind, may raise the listed exception classes."""
  kind = parse_kind(result_kind)

  def spec(ex, st, fn, pos, kwargs):
    out = []
    if log:
      ex.event(st, ('call', name, fn.t, tuple(pos)))
    if '*pre-existing' in havoc:
      havoc_preexisting(ex, st)
    elif havoc:
      ex.havoc_heap(st, list(havoc))
    exits = [None] + list(may_raise)
    for n, e in enumerate(exits):
      s = st.fork() if n < len(exits) - 1 else st
      if e is None:
        if kind.tag == 'none':
          out.append((s, NONE))
        else:
          out.append((s, ex.wrap(s, fresh('ret_' + name, kind.sort()), kind)))
      else:
        exc = ex.make_exception(s, e, exact=False)
        out.append((s, Raised(exc)))
    return out
  return spec


def havoc_preexisting(ex, st, keep=()):
  """Arbitrary user code ran: every field / container content of objects that existed before this activation may
  have changed; objects allocated by the verified activation (refs >= ALLOC_BASE) are unreachable for it, unless they
  were stored into a pre-existing object (not tracked: escape analysis is the contract author's obligation).

  keep: framework-private (class, field) slots user code never writes (frame assumption); the *contents* of the containers
  stored in private slots are preserved as well."""
  from pyvc.state import ALLOC_BASE
  r = z3.Int('hp_r')
  # private container slots not read so far still exist: materialise their arrays so that the preservation of their
  # contents is stated now (a later first read would otherwise see an unrelated post-havoc array)
  probe = VRef('list', z3.IntVal(0))
  ex.list_len(st, probe), ex.list_items(st, probe), ex.dict_dom(st, probe), ex.dict_val(st, probe)
  st.harr(('dict', 'keys'), z3.IntSort(), is_ref=True)
  for (cname, fname) in sorted(keep):
    kind = ex.ctx.registry.fields.get((cname, fname))
    if kind is not None and kind.tag in ('list', 'dict', 'set', 'tuple') and (cname, fname) not in st.heap:
      st.harr((cname, fname), kind.sort(), is_ref=True, owned=getattr(kind, 'owned', False))
  before = dict(st.heap)
  container_keys = [('list', 'len'), ('list', 'items'), ('dict', 'dom'), ('dict', 'val'), ('dict', 'keys')]
  for key in list(st.heap):
    if key in keep:
      continue
    old = st.heap[key]
    new = fresh('HP_%s_%s' % key, old.sort())
    st.heap[key] = new
    st.axiom(z3.ForAll([r], z3.Implies(r >= ALLOC_BASE, z3.Select(new, r) == z3.Select(old, r))))
    if old.sort().range() == z3.IntSort() and key[1] not in ('len',):
      st.axiom(z3.ForAll([r], z3.Implies(r < ALLOC_BASE, z3.And(z3.Select(new, r) >= 0))))
  # ghost containers (call logs, wire logs ...) are specification state: user code cannot touch them; the same goes
  # for process-wide containers the contract files declare private to the framework (reg.private_containers)
  protected = [(g, v) for g, v in st.ghost.items()]
  protected += [(None, VRef('dict', z3.IntVal(r))) for r in getattr(ex.ctx.registry, 'private_containers', ())]
  for g, v in protected:
    if isinstance(v, VRef) and v.cls in ('list', 'tuple', 'dict', 'set'):
      refs = [v.t]
      if v.cls in ('dict', 'set') and ('dict', 'keys') in before:
        refs.append(z3.Select(before[('dict', 'keys')], v.t))
      for ck in container_keys:
        if ck in before and not before[ck].eq(st.heap[ck]):
          for rt in refs:
            st.heap[ck] = z3.Store(st.heap[ck], rt, z3.Select(before[ck], rt))
  # contents of private containers survive
  for (cname, fname) in keep:
    kind = ex.ctx.registry.fields.get((cname, fname))
    if kind is None or kind.tag not in ('list', 'dict', 'set', 'tuple'):
      continue
    slot = before.get((cname, fname))
    if slot is None:
      continue
    cont = z3.Select(slot, r)
    for ck in container_keys:
      if ck in before and not before[ck].eq(st.heap[ck]):
        st.axiom(z3.ForAll([r], z3.Select(st.heap[ck], cont) == z3.Select(before[ck], cont)))
        for (key_, objt) in st.ghost.get('$private_reads', ()):
          if key_ == (cname, fname):
            g = z3.Select(slot, objt)
            st.axiom(z3.Select(st.heap[ck], g) == z3.Select(before[ck], g))
    if kind.tag in ('dict', 'set') and ('dict', 'keys') in before:
      kl = z3.Select(before[('dict', 'keys')], cont)
      for ck in container_keys[:2]:
        if ck in before and not before[ck].eq(st.heap[ck]):
          st.axiom(z3.ForAll([r], z3.Select(st.heap[ck], kl) == z3.Select(before[ck], kl)))
          for (key_, objt) in st.ghost.get('$private_reads', ()):
            if key_ == (cname, fname):
              g = z3.Select(before[('dict', 'keys')], z3.Select(slot, objt))
              st.axiom(z3.Select(st.heap[ck], g) == z3.Select(before[ck], g))
