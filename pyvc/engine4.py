"""Loops cut at invariants, comprehensions / quantifiers, spec evaluation, contract application, unit verification."""
import ast

import z3

from pyvc import values as vv
from pyvc.values import VSeq
from pyvc.values import (Val, V, VNone, NONE, VBool, VInt, VFloat, VStr, VBytes, VEnum, VRef, VVal, VTuple,
                         VClass, VCallable, VOpaque, VFunc, VBuiltin, VModule, VSuper, Raised, Unsupported,
                         fresh, Kind, parse_kind)
from pyvc.loader import ClassInfo, EnumInfo, FuncInfo, BUILTIN_EXC, builtin_exc_is_sub
from pyvc.state import State, Obligation, ALLOC_BASE
from pyvc.engine import VPyDict, VGen
from pyvc.engine3 import VIterView, VCtxMgr


def assigned_names(stmts):
  names = set()
  for st in stmts:
    for n in ast.walk(st):
      if isinstance(n, ast.Name) and isinstance(n.ctx, (ast.Store, ast.Del)):
        names.add(n.id)
  return names


def base_array(arr):
  """The constant a chain of Store(...) was built on."""
  while z3.is_app(arr) and arr.decl().kind() == z3.Z3_OP_STORE:
    arr = arr.arg(0)
  return arr


class SpecMixin(object):

  # ------------------------------------------------------------------ havoc helpers
  def havoc_value(self, st, v, name, kind=None):
    if kind is not None:
      return self.wrap(st, fresh('hv_' + name, kind.sort()), kind)
    if isinstance(v, VInt):
      return VInt(fresh('hv_' + name, z3.IntSort()))
    if isinstance(v, VBool):
      return VBool(fresh('hv_' + name, z3.BoolSort()))
    if isinstance(v, VFloat):
      return VFloat(fresh('hv_' + name, vv.F64))
    if isinstance(v, VStr):
      return VStr(fresh('hv_' + name, z3.StringSort()))
    if isinstance(v, VBytes):
      return VBytes(fresh('hv_' + name, z3.StringSort()))
    if isinstance(v, VEnum):
      t = fresh('hv_' + name, z3.IntSort())
      st.assume(z3.And(t >= 0, t < len(v.enum.members)))
      return VEnum(v.enum, t)
    if isinstance(v, VVal):
      return VVal(fresh('hv_' + name, Val))
    if isinstance(v, VRef):
      t = fresh('hv_' + name, z3.IntSort())
      return VRef(v.cls, t, nullable=True, elem=v.elem)
    if v is None or isinstance(v, VNone):
      return VVal(fresh('hv_' + name, Val))
    raise Unsupported('cannot havoc loop variable %s (%r): give its kind in the loop spec' % (name, v))

  def havoc_heap(self, st, patterns, env=None):
    """patterns: 'Class.field' (whole array) | 'list' | 'dict' | '*' | 'name.field' (single object store)."""
    if any(p in ('*', '*user', 'dict', 'list') for p in patterns):
      self.drop_keypos(st)
    for p in patterns:
      if p == '*':
        for key in list(st.heap):
          st.heap[key] = fresh('H_%s_%s' % key, st.heap[key].sort())
        st.epoch = (st.epoch[0] + 1, st.epoch[1])
        continue
      if p == '*user':
        st.epoch = (st.epoch[0], st.epoch[1] + 1)
        # arbitrary user code: everything except the framework-private fields (frame assumption) and fresh objects
        from pyvc.opaque import havoc_preexisting
        havoc_preexisting(self, st, keep=self.ctx.registry.private_fields)
        continue
      if p in ('list', 'dict'):
        for key in list(st.heap):
          if key[0] == p:
            st.heap[key] = fresh('H_%s_%s' % key, st.heap[key].sort())
        continue
      if p.startswith('owned('):
        # the contents of every container owned by that (class, field) slot (and their hidden key lists)
        tag = self.owned_tag(p)
        ctag = z3.Function('container_tag', z3.IntSort(), z3.IntSort())
        kown = z3.Function('keylist_owner', z3.IntSort(), z3.IntSort())
        probe = VRef('list', z3.IntVal(0))
        self.list_len(st, probe), self.list_items(st, probe), self.dict_dom(st, probe), self.dict_val(st, probe)
        r = z3.Int('ow_r')
        inside = z3.Or(ctag(r) == tag, z3.And(ctag(r) == -1, ctag(kown(r)) == tag))
        self.drop_keypos(st)
        for key in (('list', 'len'), ('list', 'items'), ('dict', 'dom'), ('dict', 'val')):
          oldarr = st.heap[key]
          newarr = fresh('HO_%s_%s' % key, oldarr.sort())
          st.heap[key] = newarr
          st.axiom(z3.ForAll([r], z3.Implies(z3.Not(inside), z3.Select(newarr, r) == z3.Select(oldarr, r))))
          if key == ('list', 'len'):
            st.axiom(z3.ForAll([r], z3.Select(newarr, r) >= 0))
        continue
      if p.startswith('list(') or p.startswith('dict('):
        which = p[:4]
        ref = self.eval_spec_value(st, p[5:-1], env)
        if which == 'dict':
          self.drop_keypos(st, ref)
        keys = [('list', 'len'), ('list', 'items')] if which == 'list' else [('dict', 'dom'), ('dict', 'val')]
        if which == 'dict':
          kl = self.dict_keys(st, ref)
          for key in (('list', 'len'), ('list', 'items')):
            arr = st.harr(key, z3.IntSort() if key[1] == 'len' else z3.ArraySort(z3.IntSort(), Val))
            st.heap[key] = z3.Store(arr, kl.t, z3.If(ref.t == 0, z3.Select(arr, kl.t), fresh('hv', arr.sort().range())))
        hvs = {}
        for key in keys:
          srt = {'len': z3.IntSort(), 'items': z3.ArraySort(z3.IntSort(), Val), 'dom': z3.ArraySort(Val, z3.BoolSort()),
                 'val': z3.ArraySort(Val, Val)}[key[1]]
          arr = st.harr(key, srt)
          # (a container expression that is None denotes no container: nothing is modified)
          hv = fresh('hv', srt)
          hvs[key[1]] = hv
          self.__dict__.setdefault('_havoc_fresh', []).append(hv)
          st.heap[key] = z3.Store(arr, ref.t, z3.If(ref.t == 0, z3.Select(arr, ref.t), hv))
        if which == 'list':
          st.assume(self.list_len(st, ref) >= 0)
          ek = getattr(ref, 'elem', None)
          if ek is not None and ek.tag != 'val':
            # the declared element kind is a shape invariant of the list: it holds for the new contents as well
            i = z3.Int('sh_i')
            sub = st.fork()
            base = len(sub.pc)
            try:
              self.from_val(sub, z3.Select(hvs['items'], i), ek)
              facts = [c for c in sub.pc[base:] if 'sh_i' in c.sexpr()]
              if facts:
                st.axiom(z3.ForAll([i], z3.Implies(z3.And(i >= 0, i < hvs['len']), z3.And(*facts))))
            except Unsupported:
              pass
        continue
      head, field = p.rsplit('.', 1)
      owner = None
      for (c, f), k in self.ctx.registry.fields.items():
        if c == head and f == field:
          owner = (c, k)
      if owner is not None:
        key = (head, field)
        arr = st.harr(key, owner[1].sort())
        st.heap[key] = fresh('H_%s_%s' % key, arr.sort())
        continue
      # object-specific:  expr.field
      obj = self.eval_spec_value(st, head, env)
      if not isinstance(obj, VRef):
        raise Unsupported('modifies pattern %s: %s is not an object' % (p, head))
      fk = self.field_kind(obj.cls, field)
      if fk is None or fk[1].tag == 'py':
        oid = self.oid_of(obj)
        if oid is None:
          raise Unsupported('modifies pattern %s: undeclared field' % p)
        st.pyheap.pop((oid, field), None)
        continue
      key = (fk[0], field)
      arr = st.harr(key, fk[1].sort())
      hv = fresh('hv_' + field, fk[1].sort())
      if fk[1].tag in ('ref', 'exc', 'list', 'dict', 'set', 'tuple', 'val'):
        self.__dict__.setdefault('_havoc_fresh', []).append(hv)
      st.heap[key] = z3.Store(arr, obj.t, hv)

  def heap_changed_keys(self, before, after):
    out = []
    for key, arr in after.heap.items():
      b = before.heap.get(key)
      if b is None or not b.eq(arr):
        out.append(key)
    return out

  def allowed_keys(self, st, patterns, env=None):
    """Heap keys a modifies list permits (coarse: object-specific patterns permit their whole array)."""
    ok = set()
    for p in patterns:
      if p in ('*', '*user'):
        return None
      if p in ('list', 'dict'):
        ok.update(k for k in [('list', 'len'), ('list', 'items'), ('dict', 'dom'), ('dict', 'val'), ('dict', 'keys')]
                  if k[0] == p or p == 'dict')
        continue
      if p.startswith('owned('):
        ok.update([('list', 'len'), ('list', 'items'), ('dict', 'dom'), ('dict', 'val')])
        continue
      if p.startswith('list('):
        ok.update([('list', 'len'), ('list', 'items')])
        continue
      if p.startswith('dict('):
        ok.update([('dict', 'dom'), ('dict', 'val'), ('dict', 'keys'), ('list', 'len'), ('list', 'items')])
        continue
      head, field = p.rsplit('.', 1)
      if (head, field) in self.ctx.registry.fields:
        ok.add((head, field))
        continue
      obj = self.eval_spec_value(st, head, env)
      fk = self.field_kind(obj.cls, field) if isinstance(obj, VRef) else None
      if fk is not None:
        ok.add((fk[0], field))
    return ok

  # ------------------------------------------------------------------ loops with invariants
  def check_invariants(self, st, spec, kind, label):
    for n, inv in enumerate(spec['inv']):
      name = inv[0] if isinstance(inv, tuple) else 'inv%d' % n
      expr = inv[1] if isinstance(inv, tuple) else inv
      self.spec_obligation(st, expr, '%s/%s.%s@%s' % (self.ctx.unit, kind, name, label), kind)

  def assume_invariants(self, st, spec):
    for inv in spec['inv']:
      expr = inv[1] if isinstance(inv, tuple) else inv
      st.assume(self.eval_spec_merged(st, expr))

  def havoc_loop(self, st, stmt, spec, extra_names=()):
    names = assigned_names(stmt.body) | set(extra_names)
    for n in sorted(names):
      kind = spec['vars'].get(n)
      if n in st.env or kind is not None:
        st.env[n] = self.havoc_value(st, st.env.get(n), n, parse_kind(kind) if kind else None)
    before = dict(st.heap)
    self._havoc_fresh = []
    self.havoc_heap(st, spec['modifies'])
    self.fresh_slice_after_havoc(st, before)
    # ghost variables may be advanced by contracted callees / trusted models inside the body; the ones the contract
    # under verification declares const are specification inputs nothing changes
    const = getattr(self.unit_contract, 'ghost_const', ())
    for g, v in list(st.ghost.items()):
      if not isinstance(g, str) or g.startswith('$') or g.startswith('CONF.') or g in const:
        continue
      if isinstance(v, VInt):
        st.ghost[g] = VInt(fresh('hv_ghost_' + g, z3.IntSort()))
      elif isinstance(v, VSeq):
        st.ghost[g] = VSeq(fresh('hv_ghost_' + g, v.t.sort()))
      elif isinstance(v, VStr):
        st.ghost[g] = VStr(fresh('hv_ghost_' + g, z3.StringSort()))
      elif isinstance(v, VBool):
        st.ghost[g] = VBool(fresh('hv_ghost_' + g, z3.BoolSort()))

  LOOP_SLICE = 50000

  def fresh_slice_after_havoc(self, st, before):
    """Objects the iteration about to be executed allocates are distinct from everything reachable at the loop head
    (including what earlier iterations allocated): the iteration allocates from a new slice of ids, and no reference
    held in a havocked array points into that slice."""
    lo = st.next_oid + self.LOOP_SLICE
    hi = lo + self.LOOP_SLICE
    r, i = z3.Int('ls_r'), z3.Int('ls_i')
    outside = lambda t: z3.Or(t < lo, t >= hi)
    # the fresh constants themselves (patterns over them survive the array rewriter, unlike Select(Store(..)))
    for hv in self.__dict__.get('_havoc_fresh', []):
      if hv.sort() == z3.IntSort():
        st.axiom(outside(hv))
      elif hv.sort() == Val:
        st.axiom(z3.Implies(Val.is_VR(hv), outside(Val.r(hv))))
      elif hv.sort() == z3.ArraySort(z3.IntSort(), Val):
        st.axiom(z3.ForAll([i], z3.Implies(Val.is_VR(z3.Select(hv, i)), outside(Val.r(z3.Select(hv, i))))))
      elif hv.sort() == z3.ArraySort(Val, Val):
        k = z3.Const('ls_k', Val)
        st.axiom(z3.ForAll([k], z3.Implies(Val.is_VR(z3.Select(hv, k)), outside(Val.r(z3.Select(hv, k))))))
    self._havoc_fresh = []
    for key, arr in st.heap.items():
      old = before.get(key)
      if old is not None and old.eq(arr):
        continue
      rng = arr.sort().range()
      if rng == z3.IntSort() and key[1] not in ('len',):
        kind = self.ctx.registry.fields.get(key)
        if key == ('dict', 'keys') or (kind is not None and kind.tag in ('ref', 'exc', 'list', 'dict', 'set', 'tuple')):
          st.axiom(z3.ForAll([r], outside(z3.Select(arr, r))))
      elif rng == Val:
        st.axiom(z3.ForAll([r], z3.Implies(Val.is_VR(z3.Select(arr, r)), outside(Val.r(z3.Select(arr, r))))))
      elif key == ('list', 'items'):
        el = z3.Select(z3.Select(arr, r), i)
        st.axiom(z3.ForAll([r, i], z3.Implies(Val.is_VR(el), outside(Val.r(el)))))
    st.next_oid = lo

  def for_with_invariant(self, st, stmt, it, spec):
    label = self.loop_key(stmt)
    seq, elem_of = self.iter_as_list(st, it)
    n = self.list_len(st, seq)
    st.assume(n >= 0)
    idx = spec.get('index', '_i')
    st.env[idx] = VInt(0)
    self.check_invariants(st, spec, 'inv-init', label)
    # arbitrary iteration
    h = st
    target_names = [x.id for x in ast.walk(stmt.target) if isinstance(x, ast.Name)]
    self.havoc_loop(h, stmt, spec, target_names)
    i = fresh('loop_i', z3.IntSort())
    h.env[idx] = VInt(i)
    h.assume(z3.And(i >= 0, i <= n))
    self.assume_invariants(h, spec)
    out = []
    # --- body
    b = h.fork()
    b.assume(i < n)
    b.ghost['$trace'] = ()
    # an iterable that may fail while it is being consumed (e.g. a serializer generator raising after k chunks)
    fail_at = None
    if isinstance(seq, VRef) and self.oid_of(seq) is not None:
      fail_at = b.pyheap.get((self.oid_of(seq), '$fail_at'))
      fail_exc = b.pyheap.get((self.oid_of(seq), '$fail_exc'), 'Exception')
    if fail_at is not None:
      f = b.fork()
      f.assume(i == fail_at.t)
      if self.feasible(f):
        out.append((f, ('raise', self.make_exception(f, fail_exc, exact=False))))
      b.assume(i != fail_at.t)
    if self.feasible(b):
      for s, c in self.assign(b, stmt.target, elem_of(b, i)):
        if c is not None:
          out.append((s, c))
          continue
        for s2, ctl in self.exec_block(s, stmt.body):
          if ctl is None or ctl[0] == 'continue':
            self.check_loop_frame(h, s2, spec, label)
            s2.env[idx] = VInt(i + 1)
            self.check_invariants(s2, spec, 'inv-keep', label)
            self.ctx.paths += 1
          elif ctl[0] == 'break':
            out.append((s2, None))
          else:
            out.append((s2, ctl))
    # --- exit
    e = h
    e.assume(i == n)
    if fail_at is not None:
      f = e.fork()
      f.assume(fail_at.t == n)       # the producer may also fail after its last chunk
      if self.feasible(f):
        out.append((f, ('raise', self.make_exception(f, fail_exc, exact=False))))
      e.assume(fail_at.t != n)
    if self.feasible(e):
      out.extend(self.exec_block(e, stmt.orelse) if stmt.orelse else [(e, None)])
    return out

  def while_with_invariant(self, st, stmt, spec):
    label = self.loop_key(stmt)
    self.check_invariants(st, spec, 'inv-init', label)
    h = st
    self.havoc_loop(h, stmt, spec)
    self.assume_invariants(h, spec)
    h.ghost['$trace'] = ()
    head = h.fork()        # snapshot of the loop-head state (the body consumes h)
    out = []
    for s, c in self.eval(h, stmt.test):
      if isinstance(c, Raised):
        out.append((s, ('raise', c.exc)))
        continue
      for s2, bval in self.truth_branch(s, c):
        if not bval:
          out.extend(self.exec_block(s2, stmt.orelse) if stmt.orelse else [(s2, None)])
          continue
        dec0 = self.eval_spec_value(s2, spec['decreases']) if spec.get('decreases') else None
        for s3, ctl in self.exec_block(s2, stmt.body):
          if ctl is None or ctl[0] == 'continue':
            self.check_loop_frame(head, s3, spec, label)
            self.check_invariants(s3, spec, 'inv-keep', label)
            if dec0 is not None:
              dec1 = self.eval_spec_value(s3, spec['decreases'])
              self.ctx.obligations.append(Obligation('%s/decreases@%s' % (self.ctx.unit, label), 'inv-keep', s3.pc,
                                                     z3.And(dec1.t < dec0.t, dec0.t >= 0), label))
            self.ctx.paths += 1
          elif ctl[0] == 'break':
            out.append((s3, None))
          else:
            out.append((s3, ctl))
    return out

  def check_loop_frame(self, before, after, spec, label):
    allowed = self.allowed_keys(after, spec['modifies'])
    if allowed is None:
      return
    containers = self.container_exempt(before.fork(), spec['modifies'])
    for key in self.heap_changed_keys(before, after):
      if key in allowed and key[0] in ('list', 'dict') and containers is not None:
        self.container_frame_obligation(before, after, key, containers, before.next_oid,
                                        '%s/loop-frame.%s.%s@%s' % (self.ctx.unit, key[0], key[1], label), label)
      if key not in allowed:
        # writes to objects allocated inside the iteration are invisible outside it
        old = before.heap.get(key)
        if old is None:
          old = base_array(after.heap[key])        # first touched inside the body: its base constant is the head value
          if old.eq(after.heap[key]):
            continue
        r = fresh('fr', z3.IntSort())
        goal = z3.ForAll([r], z3.Implies(r < before.next_oid, z3.Select(after.heap[key], r) == z3.Select(old, r)))
        self.ctx.obligations.append(Obligation('%s/loop-frame.%s.%s@%s' % (self.ctx.unit, key[0], key[1], label),
                                               'frame', after.pc, goal, label))

  def iter_as_list(self, st, it):
    """Symbolic iterable -> (list ref, elem_of(state, index term) -> V)."""
    if isinstance(it, VRef) and it.cls in ('list', 'tuple'):
      return it, lambda s, i: self.list_get(s, it, i)
    if isinstance(it, VRef) and it.cls in ('dict', 'set'):
      self.keypos_fn(st, it)
      keys = self.dict_keys(st, it)
      kk = getattr(it, 'keykind', None)
      return keys, lambda s, i: self.key_value(s, z3.Select(self.list_items(s, keys), i), kk)
    if isinstance(it, VIterView):
      base = it.base
      if it.how in ('items', 'values', 'keys') and isinstance(base, VRef) and base.cls == 'dict':
        self.keypos_fn(st, base)
        keys = self.dict_keys(st, base)
        kk = getattr(base, 'keykind', None)
        def elem(s, i, how=it.how):
          kt = z3.Select(self.list_items(s, keys), i)
          k = self.key_value(s, kt, kk)
          if how == 'keys':
            return k
          v = self.from_val(s, z3.Select(self.dict_val(s, base), kt), base.elem)
          return v if how == 'values' else VTuple([k, v])
        return keys, elem
      if it.how == 'enumerate':
        seq, el = self.iter_as_list(st, base)
        start = it.extra if it.extra is not None else VInt(0)
        return seq, lambda s, i: VTuple([VInt(start.t + i), el(s, i)])
      if it.how == 'intseq':
        n, fn = it.extra
        lst = self.alloc(st, 'list')
        self.list_set(st, lst, length=n)
        return lst, lambda s, i: VInt(fn(i))
    raise Unsupported('symbolic iteration over %r' % (it,))

  def view_values(self, st, view):
    base = view.base
    if view.how in ('items', 'values', 'keys'):
      if isinstance(base, VPyDict):
        if view.how == 'keys':
          return [VStr(k) for k in base.d]
        if view.how == 'values':
          return list(base.d.values())
        return [VTuple([VStr(k), v]) for k, v in base.d.items()]
      keys = self.list_values(st, self.dict_keys(st, base))
      if keys is None:
        return None
      if view.how == 'keys':
        return keys
      vals = [self.dict_load(st, base, k) for k in keys]
      return vals if view.how == 'values' else [VTuple([k, v]) for k, v in zip(keys, vals)]
    if view.how == 'enumerate':
      vals = self.concrete_iter(st, base)
      if vals is None:
        return None
      start = view.extra.t.as_long() if view.extra is not None else 0
      return [VTuple([VInt(start + i), v]) for i, v in enumerate(vals)]
    if view.how == 'zip':
      cols = [self.concrete_iter(st, b) for b in base]
      if any(c is None for c in cols):
        return None
      return [VTuple(list(t)) for t in zip(*cols)]
    if view.how == 'reversed':
      vals = self.concrete_iter(st, base)
      return None if vals is None else list(reversed(vals))
    return None

  # ------------------------------------------------------------------ comprehensions / quantifiers
  def symbolic_dictcomp(self, st, e):
    """{k: V(k) for k in <symbolic dict> if C(k)}: pointwise definition of the new dict (key order unspecified)."""
    tgt = e.generators[0].target if len(e.generators) == 1 else None
    items_form = (isinstance(tgt, ast.Tuple) and len(tgt.elts) == 2 and all(isinstance(x, ast.Name) for x in tgt.elts) and
                  isinstance(e.key, ast.Name) and e.key.id == tgt.elts[0].id)        # {k: V(k, v) for k, v in d.items() if C(k, v)}
    if len(e.generators) != 1 or not (items_form or (isinstance(tgt, ast.Name) and isinstance(e.key, ast.Name) and e.key.id == tgt.id)):
      raise Unsupported('dict comprehension over a symbolic iterable must have the form {k: v(k) for k in d if c(k)}')
    g = e.generators[0]
    rs = self.eval(st, g.iter)
    if len(rs) != 1 or isinstance(rs[0][1], Raised):
      raise Unsupported('dict comprehension iterable forks')
    st, src = rs[0]
    if isinstance(src, VIterView) and src.how == 'keys' and not items_form:
      src = src.base
    elif isinstance(src, VIterView) and src.how == 'items' and items_form:
      src = src.base
    elif items_form:
      raise Unsupported('symbolic dict comprehension with a pair target over %r' % (src,))
    if not (isinstance(src, VRef) and src.cls == 'dict'):
      raise Unsupported('symbolic dict comprehension over %r' % (src,))
    k = fresh('dc_k', Val)
    s = st.fork()
    saved = self.spec_mode
    self.spec_mode = True
    try:
      s.env = dict(st.env)
      # the key is used as it is (no projection), with its declared shape recorded as tag knowledge
      kv = VVal(k)
      if src.keykind is not None and src.keykind.tag in ('str', 'int', 'bytes', 'bool', 'float'):
        s.tags[k.get_id()] = src.keykind.tag
      if items_form:
        s.env[tgt.elts[0].id] = kv
        s.env[tgt.elts[1].id] = self.from_val(s, z3.Select(self.dict_val(s, src), k), src.elem)
      else:
        s.env[g.target.id] = kv
      base = len(s.pc)
      conds = [self.eval_merged_bool(s, c) for c in g.ifs]
      cond = z3.And(z3.Select(self.dict_dom(s, src), k), *conds)
      s.assume(cond)
      vrs = self.eval(s, e.value)
      if len(vrs) != 1 or isinstance(vrs[0][1], Raised):
        raise Unsupported('dict comprehension value forks / raises')
      val = self.to_val(vrs[0][0], vrs[0][1])
    finally:
      self.spec_mode = saved
    names = [str(k)]
    for c in vrs[0][0].pc[base:]:
      if c.get_id() in vrs[0][0].ax and not any(n in c.sexpr() for n in names):
        st.axiom(c)
    d = self.alloc(st, 'dict', elem=None)
    d.keykind = src.keykind
    ndom = fresh('dc_dom', z3.ArraySort(Val, z3.BoolSort()))
    nval = fresh('dc_val', z3.ArraySort(Val, Val))
    st.axiom(z3.ForAll([k], z3.Select(ndom, k) == cond))
    st.axiom(z3.ForAll([k], z3.Implies(cond, z3.Select(nval, k) == val)))
    nk = self.alloc(st, 'list')
    self.list_set(st, nk, fresh('dc_n', z3.IntSort()), fresh('dc_keys', z3.ArraySort(z3.IntSort(), Val)))
    st.axiom(self.list_len(st, nk) >= 0)
    self.dict_set_raw(st, d, ndom, nval, nk.t)
    return [(st, d)]

  def comprehension(self, st, e, kind):
    """Eager evaluation of list/set/dict comprehensions over concrete-length iterables."""
    if kind == 'dict':
      try:
        snap = st.fork()
        return self._comprehension(st, e, kind)
      except Unsupported as u:
        if 'symbolic iterable' not in str(u):
          raise
        st.env, st.pc, st.heap, st.ax = snap.env, snap.pc, snap.heap, snap.ax
        return self.symbolic_dictcomp(st, e)
    return self._comprehension(st, e, kind)

  def _comprehension(self, st, e, kind):
    gens = e.generators
    saved = dict(st.env)
    def go(s, gi):
      if gi == len(gens):
        if kind == 'dict':
          return self.then(self.eval_list(s, [e.key, e.value]), lambda s2, kv: [(s2, [VTuple(kv)])])
        return self.then(self.eval(s, e.elt), lambda s2, v: [(s2, [v])])
      g = gens[gi]
      def with_iter(s2, it):
        seq = self.concrete_iter(s2, it)
        if seq is None:
          bound = getattr(self.ctx, 'bounded_lists', None)
          if bound is None or self.spec_mode:
            raise Unsupported('comprehension over symbolic iterable: %s' % ast.unparse(e)[:60])
          # BOUNDED stand-in (see bounded_for): every length 0..bound of the symbolic iterable
          lst, elem_of = self.iter_as_list(s2, it)
          n = self.list_len(s2, lst)
          self.ctx.bounded_notes = getattr(self.ctx, 'bounded_notes', [])
          self.ctx.bounded_notes.append('comprehension `%s`: sequences of length <= %d only' % (ast.unparse(e)[:50], bound))
          outs = []
          for k in range(bound + 1):
            sk_ = s2.fork()
            sk_.assume(n == k)
            if self.feasible(sk_):
              outs.extend(run_over(sk_, [elem_of(sk_, z3.IntVal(j)) for j in range(k)]))
          return outs
        return run_over(s2, seq)

      def run_over(s2, seq):
        results = [(s2, [])]
        for x in seq:
          nxt = []
          for s3, acc in results:
            if isinstance(acc, Raised):
              nxt.append((s3, acc))
              continue
            for s4, c in self.assign(s3, g.target, x):
              conds = [(s4, True)]
              for cond in g.ifs:
                nc = []
                for s5, ok in conds:
                  if not ok:
                    nc.append((s5, False))
                    continue
                  for s6, cv in self.eval(s5, cond):
                    if isinstance(cv, Raised):
                      raise Unsupported('comprehension condition raising')
                    nc.extend(self.truth_branch(s6, cv))
                conds = nc
              for s5, ok in conds:
                if not ok:
                  nxt.append((s5, acc))
                  continue
                for s6, items in go(s5, gi + 1):
                  nxt.append((s6, items if isinstance(items, Raised) else acc + items))
          results = nxt
        return results
      return self.then(self.eval(s, g.iter), with_iter)
    out = []
    for s, items in go(st, 0):
      for k in list(s.env):
        if k not in saved and not k.startswith('$'):
          del s.env[k]
      if isinstance(items, Raised):
        out.append((s, items))
      elif kind == 'list' or kind == 'gen':
        out.append((s, self.new_list(s, items)))
      elif kind == 'set':
        out.append((s, self.new_dict(s, [(x, VBool(True)) for x in items], cls='set')))
      else:
        out.append((s, self.new_dict(s, [(kv.items[0], kv.items[1]) for kv in items])))
    return out

  def gen_values(self, st, gen):
    """Concrete evaluation of a VGen: [(state, [V] | Raised)] or None when the iterable is symbolic."""
    saved = st.env
    st.env = dict(gen.env)
    try:
      node = gen.node
      fake = ast.ListComp(elt=node.elt, generators=node.generators)
      rs = self.comprehension(st, fake, 'list')
    except Unsupported as u:
      st.env = saved
      if 'symbolic iterable' in str(u):
        return None
      raise
    out = []
    for s, lst in rs:
      s.env = saved if len(rs) == 1 else dict(saved)
      out.append((s, lst if isinstance(lst, Raised) else self.list_values(s, lst)))
    return out

  def quantify(self, st, gen, universal):
    """any()/all() over a generator with a symbolic iterable -> single z3 Bool (predicate must be pure)."""
    node = gen.node
    if len(node.generators) != 1:
      raise Unsupported('nested generators over symbolic iterables')
    g = node.generators[0]
    s = st.fork()
    s.env = dict(gen.env)
    rs = self.eval(s, g.iter)
    if len(rs) != 1 or isinstance(rs[0][1], Raised):
      raise Unsupported('quantifier iterable forking')
    s, it = rs[0]
    base_pc = len(s.pc)
    seq, elem_of = self.iter_as_list(s, it)
    for c in s.pc[base_pc:]:
      if c.get_id() in s.ax:
        if c.get_id() not in st.ax:
          st.axiom(c)
      else:
        st.assume(c)
    self.lift_ghost(st, s)
    n = self.list_len(s, seq)
    i = fresh('q', z3.IntSort())
    saved_mode = self.spec_mode
    self.spec_mode = True
    try:
      s2 = s.fork()
      base = len(s2.pc)
      for _s, _c in self.assign(s2, g.target, elem_of(s2, i)):
        pass
      g0, a0 = s2.split_delta(base)
      guard = z3.And(i >= 0, i < n, *g0)
      shape_facts = a0
      conds = []
      for cond in g.ifs:
        conds.append(self.eval_merged_bool(s2, cond))
      body = self.eval_merged_bool(s2, node.elt)
    finally:
      self.spec_mode = saved_mode
    # shape facts about the bound element are quantified axioms
    for a in shape_facts:
      if str(i) in a.sexpr():
        st.axiom(z3.ForAll([i], z3.Implies(z3.And(i >= 0, i < n), a)))
      elif a.get_id() not in st.ax:
        st.axiom(a)
    if universal:
      return z3.ForAll([i], z3.Implies(z3.And(guard, *conds), body))
    return z3.Exists([i], z3.And(guard, *(conds + [body])))

  def fold_with_exceptions(self, st, gen, universal):
    """any()/all() in executed code over a symbolic sequence whose (otherwise pure) predicate may raise: Python stops at
    the first element that decides the result or raises.  With R(i) / A(i) the raise / truth predicates of element i:
      all: True  iff forall i. !R(i) & A(i);  False iff exists j. !R(j) & !A(j) & forall i<j. !R(i) & A(i);
           raises iff exists j. R(j) & forall i<j. !R(i) & A(i)            (any: with A negated)
    Returns None when the predicate cannot raise (the plain quantifier applies)."""
    node = gen.node
    if len(node.generators) != 1 or node.generators[0].ifs:
      return None
    g = node.generators[0]
    s = st.fork()
    s.env = dict(gen.env)
    rs = self.eval(s, g.iter)
    if len(rs) != 1 or isinstance(rs[0][1], Raised):
      return None
    s, it = rs[0]
    base_pc = len(s.pc)
    seq, elem_of = self.iter_as_list(s, it)
    n = self.list_len(s, seq)
    i = fresh('q', z3.IntSort())
    s2 = s.fork()
    base = len(s2.pc)
    for _s, _c in self.assign(s2, g.target, elem_of(s2, i)):
      pass
    shape = list(s2.pc[base:])
    s2.assume(z3.And(i >= 0, i < n))          # the element exists: safety obligations inside the predicate see the range
    body_base = len(s2.pc)
    raising, truth, exc_cls = [], [], None
    for s3, v in self.eval(s2, node.elt):
      guards, axioms = s3.split_delta(body_base)
      for a in axioms:
        if str(i) in a.sexpr():
          st.axiom(z3.ForAll([i], z3.Implies(z3.And(i >= 0, i < n), a)))
        elif a.get_id() not in st.ax:
          st.axiom(a)
      if isinstance(v, Raised):
        raising.append(z3.And(*guards) if guards else z3.BoolVal(True))
        exc_cls = self.exc_class_of(v.exc)
        continue
      for s4, b in self.truth(s3, v):
        g4, _ = s4.split_delta(body_base)
        truth.append(z3.And(*(g4 + [b])))
    if not raising:
      return None
    for c in s.pc[base_pc:]:
      st.axiom(c) if c.get_id() in s.ax else st.assume(c)
    for a in shape:
      if str(i) in a.sexpr():
        st.axiom(z3.ForAll([i], z3.Implies(z3.And(i >= 0, i < n), a)))
    R = z3.Or(*raising)
    A = z3.Or(*truth) if truth else z3.BoolVal(False)
    if not universal:
      A = z3.Not(A)            # `any` keeps going while the predicate is false
    at = lambda term, k: z3.substitute(term, (i, k))
    go_on = lambda k: z3.And(z3.Not(at(R, k)), at(A, k))
    out = []
    s_all = st.fork()
    s_all.assume(z3.ForAll([i], z3.Implies(z3.And(i >= 0, i < n), go_on(i))))
    out.append((s_all, VBool(universal)))
    j = fresh('first', z3.IntSort())
    s_stop = st.fork()
    s_stop.assume(z3.And(j >= 0, j < n, z3.Not(at(R, j)), z3.Not(at(A, j)),
                         z3.ForAll([i], z3.Implies(z3.And(i >= 0, i < j), go_on(i)))))
    out.append((s_stop, VBool(not universal)))
    j2 = fresh('first', z3.IntSort())
    s_exc = st
    s_exc.assume(z3.And(j2 >= 0, j2 < n, at(R, j2), z3.ForAll([i], z3.Implies(z3.And(i >= 0, i < j2), go_on(i)))))
    cname = exc_cls.name if hasattr(exc_cls, 'name') else (exc_cls if isinstance(exc_cls, str) else 'Exception')
    out.append((s_exc, Raised(self.make_exception(s_exc, cname.replace('exc:', ''), exact=False))))
    return [(x, v) for x, v in out if self.feasible(x)]

  def eval_merged_bool(self, st, expr):
    """Evaluate expr to a single z3 Bool, merging forks (used under quantifiers / in assumptions)."""
    s = st.fork()
    base = len(s.pc)
    disj = []
    for s2, v in self.eval(s, expr):
      if isinstance(v, Raised):
        self.lift_axioms(st, s2, base)
        continue
      for s3, b in self.truth(s2, v):
        guards = self.lift_axioms(st, s3, base)
        disj.append(z3.And(*(guards + [b])))
    if not disj:
      return z3.BoolVal(False)
    return disj[0] if len(disj) == 1 else z3.Or(*disj)

  def lift_axioms(self, st, sub, base):
    """Move the axioms a sub-evaluation produced into st (unconditionally valid); return the remaining guards."""
    guards, axioms = sub.split_delta(base)
    for a in axioms:
      if a.get_id() not in st.ax:
        st.axiom(a)
    self.lift_ghost(st, sub)
    return guards

  def lift_ghost(self, st, sub):
    for k, v in sub.ghost.items():
      if isinstance(k, tuple) and k[0] == '$keypos' and k not in st.ghost:
        st.ghost[k] = v

  # ------------------------------------------------------------------ spec evaluation
  def parse_spec(self, expr):
    if isinstance(expr, ast.AST):
      return expr
    return ast.parse(' '.join(expr.split()) if '\n' in expr else expr.strip(), mode='eval').body

  def spec_env(self, st, extra=None):
    env = dict(st.env)
    if extra:
      env.update(extra)
    return env

  def eval_spec(self, st, expr, extra=None):
    """[(state fork, z3 Bool)] — st itself is not modified."""
    node = self.parse_spec(expr)
    s = st.fork()
    s.env = self.spec_env(s, extra)
    saved = self.spec_mode
    self.spec_mode = True
    try:
      out = []
      for s2, v in self.eval(s, node):
        if isinstance(v, Raised):
          raise Unsupported('spec expression raises: %s' % ast.unparse(node)[:80])
        for s3, b in self.truth(s2, v):
          out.append((s3, b))
      return out
    finally:
      self.spec_mode = saved

  def eval_spec_merged(self, st, expr, extra=None):
    base = len(st.pc)
    disj = []
    for s, b in self.eval_spec(st, expr, extra):
      guards = self.lift_axioms(st, s, base)
      disj.append(z3.And(*(guards + [b])))
    if not disj:
      return z3.BoolVal(False)
    return disj[0] if len(disj) == 1 else z3.Or(*disj)

  def eval_spec_value(self, st, expr, extra=None):
    node = self.parse_spec(expr)
    s = st.fork()
    s.env = self.spec_env(s, extra)
    saved = self.spec_mode
    self.spec_mode = True
    try:
      rs = self.eval(s, node)
    finally:
      self.spec_mode = saved
    if len(rs) != 1 or isinstance(rs[0][1], Raised):
      raise Unsupported('spec value forks: %s' % ast.unparse(node)[:60])
    for c in rs[0][0].pc[len(st.pc):]:
      st.assume(c)
    return rs[0][1]

  def spec_obligation(self, st, expr, name, kind, extra=None, where=''):
    node = self.parse_spec(expr)
    if isinstance(node, ast.BoolOp) and isinstance(node.op, ast.And):
      # one obligation per top-level conjunct: smaller queries are both faster and more stable
      for k, part in enumerate(node.values):
        self.spec_obligation(st, part, '%s#%d' % (name, k + 1) if len(node.values) > 1 else name, kind, extra, where)
      return
    for s, b in self.eval_spec(st, expr, extra):
      self.ctx.obligations.append(Obligation(name, kind, s.pc, b, where,
                                             {'expr': expr if isinstance(expr, str) else ast.unparse(expr)}))
