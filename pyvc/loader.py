"""Reads /repo sources with ast on every run and builds module / class / function tables.

Extraction drops: comments, docstrings (kept in the AST but ignored), type annotations, pragmas.
It rewrites nothing.
"""
import ast
import hashlib
import os

REPO = os.environ.get('PYVC_REPO', '/repo')


class FuncInfo(object):

  def __init__(self, module, qualname, node, cls=None):
    self.module = module
    self.qualname = qualname
    self.node = node
    self.cls = cls
    self.name = node.name if hasattr(node, 'name') else '<lambda>'
    decos = []
    for d in getattr(node, 'decorator_list', []):
      decos.append(ast.unparse(d))
    self.decorators = decos
    self.is_property = any(d in ('property', 'abc.abstractproperty', 'functools.cached_property') for d in decos)
    self.is_setter = any(d.endswith('.setter') for d in decos)
    self.is_classmethod = 'classmethod' in decos
    self.is_staticmethod = 'staticmethod' in decos
    self.is_contextmanager = any(d.endswith('contextmanager') for d in decos)
    self.is_abstract = any('abstract' in d for d in decos)

  def sha(self):
    body = self.node
    return hashlib.sha256(ast.dump(body, include_attributes=False).encode()).hexdigest()[:16]

  def __repr__(self):
    return '<Func %s::%s>' % (self.module.name, self.qualname)


class ClassInfo(object):
  _uid = [0]

  def __init__(self, module, qualname, node):
    ClassInfo._uid[0] += 1
    self.uid = ClassInfo._uid[0]
    self.module = module
    self.name = qualname
    self.node = node
    self.base_exprs = [ast.unparse(b) for b in node.bases]
    self.bases = []            # resolved ClassInfo / builtin names
    self.methods = {}
    self.setters = {}
    self.class_attrs = {}      # name -> ast expr
    self.attrs_fields = []     # (name, default_expr|None, factory_expr|None, init)
    self.is_attrs = any('attr.s' in ast.unparse(d) or 'attr.define' in ast.unparse(d)
                        for d in node.decorator_list)
    self.attrs_frozen = any('frozen=True' in ast.unparse(d) for d in node.decorator_list)
    self.nested = {}
    self.namedtuple_fields = None
    for b in node.bases:
      if isinstance(b, ast.Call) and ast.unparse(b.func) in ('collections.namedtuple', 'namedtuple') and len(b.args) == 2:
        try:
          f = ast.literal_eval(b.args[1])
          self.namedtuple_fields = f.split() if isinstance(f, str) else list(f)
        except Exception:
          pass

  def __repr__(self):
    return '<Class %s>' % self.name

  def mro(self):
    """Linearisation good enough for the single-inheritance-with-mixins code in the repo."""
    out = [self]
    for b in self.bases:
      if isinstance(b, ClassInfo):
        for c in b.mro():
          if c not in out:
            out.append(c)
    return out

  def builtin_bases(self):
    out = []
    for c in self.mro():
      for b in c.bases:
        if isinstance(b, str) and b not in out:
          out.append(b)
    return out

  def find_method(self, name, after=None):
    mro = self.mro()
    if after is not None:
      mro = mro[mro.index(after) + 1:] if after in mro else []
    for c in mro:
      if name in c.methods:
        return c.methods[name]
    return None

  @property
  def is_abstract_class(self):
    """Some abstractmethod is still unimplemented: Python refuses to instantiate the class."""
    if '_abs' not in self.__dict__:
      names = set()
      for c in self.mro():
        names.update(c.methods)
      self._abs = False
      for n in names:
        for c in self.mro():
          if n in c.methods:
            self._abs = self._abs or bool(getattr(c.methods[n], 'is_abstract', False))
            break
          if n in c.class_attrs or any(f[0] == n for f in c.attrs_fields):
            break          # a plain (attrs) attribute implements the abstract property
    return self._abs

  def find_setter(self, name):
    for c in self.mro():
      if name in c.setters:
        return c.setters[name]
    return None

  def find_class_attr(self, name):
    for c in self.mro():
      if name in c.class_attrs:
        return c, c.class_attrs[name]
    return None, None

  def all_attrs_fields(self):
    out = []
    for c in reversed(self.mro()):
      if c.is_attrs:
        for f in c.attrs_fields:
          out = [g for g in out if g[0] != f[0]] + [f]
    return out

  def is_subclass_of(self, other):
    if isinstance(other, ClassInfo):
      return other in self.mro()
    return other in self.builtin_bases() or other == 'object'

  def is_exception(self):
    bb = self.builtin_bases()
    return any(b in BUILTIN_EXC for b in bb)


class EnumInfo(object):
  _uid = [0]

  def __init__(self, module, qualname, members):
    EnumInfo._uid[0] += 1
    self.uid = EnumInfo._uid[0]
    self.module = module
    self.name = qualname
    self.members = members       # ordered list of (name, value_expr)
    self.methods = {}

  def index(self, name):
    for i, (n, _) in enumerate(self.members):
      if n == name:
        return i
    return None

  def __repr__(self):
    return '<Enum %s>' % self.name


# builtin exception hierarchy (child -> parent)
BUILTIN_EXC = {
    'BaseException': None, 'Exception': 'BaseException', 'SystemExit': 'BaseException',
    'KeyboardInterrupt': 'BaseException', 'GeneratorExit': 'BaseException',
    'ArithmeticError': 'Exception', 'OverflowError': 'ArithmeticError', 'ZeroDivisionError': 'ArithmeticError',
    'AssertionError': 'Exception', 'AttributeError': 'Exception', 'LookupError': 'Exception',
    'IndexError': 'LookupError', 'KeyError': 'LookupError', 'NameError': 'Exception',
    'OSError': 'Exception', 'IOError': 'Exception', 'RuntimeError': 'Exception',
    'NotImplementedError': 'RuntimeError', 'StopIteration': 'Exception', 'TypeError': 'Exception',
    'ValueError': 'Exception', 'UnicodeError': 'ValueError', 'struct.error': 'Exception',
    'queue.Empty': 'Exception', 'yaml.YAMLError': 'Exception', 'FileNotFoundError': 'OSError',
    'libusb1.USBError': 'Exception', 'TimeoutError': 'OSError',
}


def builtin_exc_is_sub(a, b):
  while a is not None:
    if a == b:
      return True
    a = BUILTIN_EXC.get(a)
  return False


class ModuleInfo(object):

  def __init__(self, name, path):
    self.name = name
    self.path = path
    with open(path) as f:
      self.source = f.read()
    self.tree = ast.parse(self.source, filename=path)
    self.imports = {}       # local name -> ('module', modname) | ('from', modname, attr)
    self.functions = {}
    self.classes = {}
    self.enums = {}
    self.globals = {}       # name -> ast expr (module-level simple assignments)
    self._scan()

  def _scan(self):
    self._scan_body(self.tree.body)

  def _scan_body(self, body):
    for node in body:
      if isinstance(node, ast.Import):
        for a in node.names:
          if a.asname:
            self.imports[a.asname] = ('module', a.name)
          else:
            self.imports[a.name.split('.')[0]] = ('module', a.name.split('.')[0])
      elif isinstance(node, ast.ImportFrom):
        mod = node.module or ''
        if node.level:
          base = self.name.split('.')
          base = base[:len(base) - node.level] if not self.path.endswith('__init__.py') else base[:len(base) - node.level + 1]
          mod = '.'.join(base + ([mod] if mod else []))
        for a in node.names:
          self.imports[a.asname or a.name] = ('from', mod, a.name)
      elif isinstance(node, (ast.FunctionDef, ast.AsyncFunctionDef)):
        self.functions[node.name] = FuncInfo(self, node.name, node)
      elif isinstance(node, ast.ClassDef):
        self._scan_class(node, '')
      elif isinstance(node, ast.Assign) and len(node.targets) == 1 and isinstance(node.targets[0], ast.Name):
        self.globals[node.targets[0].id] = node.value
      elif isinstance(node, ast.AnnAssign) and isinstance(node.target, ast.Name) and node.value is not None:
        self.globals[node.target.id] = node.value
      elif isinstance(node, ast.If):
        # e.g. `if TYPE_CHECKING:` imports
        self._scan_body(node.body)
      elif isinstance(node, ast.Try):
        self._scan_body(node.body)

  def _scan_class(self, node, prefix):
    qual = prefix + node.name
    base_names = [ast.unparse(b) for b in node.bases]
    if any(b in ('enum.Enum', 'enum.IntEnum', 'Enum') for b in base_names):
      members = []
      e = EnumInfo(self, qual, members)
      for st in node.body:
        if isinstance(st, ast.Assign) and len(st.targets) == 1 and isinstance(st.targets[0], ast.Name):
          members.append((st.targets[0].id, st.value))
        elif isinstance(st, ast.FunctionDef):
          e.methods[st.name] = FuncInfo(self, qual + '.' + st.name, st, cls=e)
      self.enums[qual] = e
      return e
    c = ClassInfo(self, qual, node)
    for st in node.body:
      if isinstance(st, (ast.FunctionDef, ast.AsyncFunctionDef)):
        fi = FuncInfo(self, qual + '.' + st.name, st, cls=c)
        if fi.is_setter:
          c.setters[st.name] = fi
        else:
          c.methods[st.name] = fi
      elif isinstance(st, ast.ClassDef):
        sub = self._scan_class(st, qual + '.')
        c.nested[st.name] = sub
      elif isinstance(st, (ast.Assign, ast.AnnAssign)):
        if isinstance(st, ast.Assign) and len(st.targets) == 1 and isinstance(st.targets[0], ast.Tuple) and \
            all(isinstance(e, ast.Name) for e in st.targets[0].elts):
          # A, B = f(...)  at class level: each name is the corresponding component
          for k, e in enumerate(st.targets[0].elts):
            c.class_attrs[e.id] = ast.Subscript(value=st.value, slice=ast.Constant(k), ctx=ast.Load())
          continue
        if isinstance(st, ast.Assign):
          if len(st.targets) != 1 or not isinstance(st.targets[0], ast.Name):
            continue
          name, value = st.targets[0].id, st.value
        else:
          if not isinstance(st.target, ast.Name) or st.value is None:
            continue
          name, value = st.target.id, st.value
        if isinstance(value, ast.Call) and ast.unparse(value.func) in ('attr.ib', 'attr.field'):
          default = factory = None
          init = True
          for kw in value.keywords:
            if kw.arg == 'default':
              default = kw.value
            elif kw.arg == 'factory':
              factory = kw.value
            elif kw.arg == 'init':
              init = ast.literal_eval(kw.value)
          c.attrs_fields.append((name, default, factory, init))
        else:
          c.class_attrs[name] = value
    self.classes[qual] = c
    return c


class Repo(object):
  """Lazy table of repo modules."""

  def __init__(self, root=None):
    self.root = root or REPO
    self.modules = {}

  def module_path(self, name):
    p = os.path.join(self.root, *name.split('.'))
    if os.path.isdir(p) and os.path.exists(os.path.join(p, '__init__.py')):
      return os.path.join(p, '__init__.py')
    if os.path.exists(p + '.py'):
      return p + '.py'
    return None

  def is_repo_module(self, name):
    return name.split('.')[0] == 'openhtf' and self.module_path(name) is not None

  def module(self, name):
    if name not in self.modules:
      path = self.module_path(name)
      if path is None:
        raise KeyError('no repo module %s' % name)
      m = ModuleInfo(name, path)
      self.modules[name] = m
      self._resolve_bases(m)
    return self.modules[name]

  def module_by_path(self, relpath):
    name = relpath[:-3].replace('/', '.')
    if name.endswith('.__init__'):
      name = name[:-9]
    return self.module(name)

  def _resolve_bases(self, m):
    for c in m.classes.values():
      c.bases = [self.resolve_class_expr(m, b) for b in c.base_exprs]

  def resolve_class_expr(self, m, expr):
    """Resolve a dotted base-class expression in module m to ClassInfo or a builtin name."""
    parts = expr.split('(')[0].split('.')
    head = parts[0]
    if expr in m.classes:
      return m.classes[expr]
    if head in m.classes and len(parts) == 1:
      return m.classes[head]
    if head in m.imports:
      imp = m.imports[head]
      if imp[0] == 'from':
        full = imp[1] + '.' + imp[2]
        if self.is_repo_module(full):
          tgt = self.module(full)
          rest = '.'.join(parts[1:])
          if rest in tgt.classes:
            return tgt.classes[rest]
          if rest in tgt.enums:
            return tgt.enums[rest]
        elif self.is_repo_module(imp[1]):
          tgt = self.module(imp[1])
          q = '.'.join([imp[2]] + parts[1:])
          if q in tgt.classes:
            return tgt.classes[q]
      else:
        modname = imp[1]
        # import openhtf ; openhtf.x.y.Class
        for k in range(len(parts) - 1, 0, -1):
          cand = '.'.join([modname] + parts[1:k])
          if self.is_repo_module(cand):
            tgt = self.module(cand)
            q = '.'.join(parts[k:])
            if q in tgt.classes:
              return tgt.classes[q]
    if expr in ('object', 'abc.ABC', 'Protocol'):
      return 'object'
    return expr     # builtin / external: keep the dotted text ('Exception', 'threading.Thread', ...)

  def func(self, relpath, qualname):
    m = self.module_by_path(relpath)
    if qualname in m.functions:
      return m.functions[qualname]
    if '.' in qualname:
      cq, fn = qualname.rsplit('.', 1)
      if cq in m.classes:
        c = m.classes[cq]
        if fn in c.methods:
          return c.methods[fn]
        if fn in c.setters:
          return c.setters[fn]
      if cq in m.enums and fn in m.enums[cq].methods:
        return m.enums[cq].methods[fn]
      # nested function:  outer.inner
      outer = self.func(relpath, cq)
      for st in ast.walk(outer.node):
        if isinstance(st, ast.FunctionDef) and st.name == fn and st is not outer.node:
          return FuncInfo(m, qualname, st, cls=None)
    raise KeyError('no function %s in %s' % (qualname, relpath))

  def cls(self, relpath, qualname):
    m = self.module_by_path(relpath)
    if qualname in m.classes:
      return m.classes[qualname]
    if qualname in m.enums:
      return m.enums[qualname]
    raise KeyError('no class %s in %s' % (qualname, relpath))

  def find_class(self, name):
    """Find a class by bare or qualified name among loaded modules (used by kind strings)."""
    hits = []
    for m in list(self.modules.values()):
      for q, c in list(m.classes.items()) + list(m.enums.items()):
        if q == name or (m.name + '.' + q).endswith('.' + name) and ('.' in name):
          hits.append(c)
    if len(hits) == 1:
      return hits[0]
    if not hits:
      raise KeyError('class %s not loaded' % name)
    raise KeyError('class %s ambiguous: %r' % (name, hits))
