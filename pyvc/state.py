"""Path state and per-unit context of the symbolic executor."""
import z3

from pyvc.values import Val, Unsupported

ALLOC_BASE = 1000000      # objects allocated during the verified activation get refs >= ALLOC_BASE


class Obligation(object):

  def __init__(self, name, kind, pc, goal, where='', info=None):
    self.name = name
    self.kind = kind          # post | pre | safety | inv-init | inv-keep | frame | exc | cover | order | lock
    self.pc = list(pc)
    self.goal = goal
    self.where = where
    self.info = info or {}
    self.status = None        # 'unsat' (valid) | 'sat' | 'unknown'
    self.model = None
    self.backend = None
    self.time = 0.0


class Ctx(object):
  """Everything shared by all paths of one verification unit."""

  def __init__(self, repo, registry, unit_name):
    self.repo = repo
    self.registry = registry
    self.unit = unit_name
    self.obligations = []
    self.trusted_uses = {}
    self.inlined = set()
    self.paths = 0
    self.solver = z3.Solver()
    self.solver.set('timeout', 3000)
    self.feas_calls = 0
    self.opts = {}
    self.covers = []
    self.observe = []

  def use_trusted(self, name):
    self.trusted_uses[name] = self.trusted_uses.get(name, 0) + 1


class State(object):
  __slots__ = ('env', 'heap', 'pyheap', 'pc', 'next_oid', 'tags', 'ghost', 'locks', 'depth', 'exc_stack',
               'classof', 'clock', 'ax', 'epoch')
  private_keys = frozenset()     # (class, field) slots opaque user code never writes (set from the registry)

  def __init__(self):
    self.env = {}
    self.heap = {}         # (owner, field) -> z3 array Int -> sort
    self.pyheap = {}       # (oid int, field) -> V  (python-side values on concrete objects)
    self.pc = []
    self.next_oid = ALLOC_BASE
    self.tags = {}         # z3 term id -> resolved tag of a VVal
    self.ghost = {}        # name -> V (ghost variables: logs, counters)
    self.locks = ()
    self.depth = 0
    self.exc_stack = ()    # currently handled exceptions (for bare raise / sys.exc_info)
    self.classof = z3.Function('classof', z3.IntSort(), z3.IntSort())
    self.clock = 0
    self.epoch = (0, 0)  # (# of '*' havocs, # of '*user' havocs) on this path: arrays first touched afterwards are not pre-state
    self.ax = set()      # ids of pc entries that are axioms (facts about fresh / uninterpreted symbols, shapes)

  def fork(self):
    s = State.__new__(State)
    s.env = dict(self.env)
    s.heap = dict(self.heap)
    s.pyheap = dict(self.pyheap)
    s.pc = list(self.pc)
    s.next_oid = self.next_oid
    s.tags = dict(self.tags)
    s.ghost = dict(self.ghost)
    s.locks = self.locks
    s.depth = self.depth
    s.exc_stack = self.exc_stack
    s.classof = self.classof
    s.clock = self.clock
    s.ax = set(self.ax)
    s.epoch = self.epoch
    return s

  def assume(self, cond):
    if z3.is_true(cond):
      return
    self.pc.append(cond)

  def axiom(self, cond):
    """A fact that holds regardless of the path taken (IEEE facts about an uninterpreted application, shape
    invariants of a value just read, ranges of fresh symbols).  Kept out of merged guards."""
    if z3.is_true(cond):
      return
    self.pc.append(cond)
    self.ax.add(cond.get_id())

  def split_delta(self, base):
    """pc[base:] -> (guards, axioms)"""
    g, a = [], []
    for c in self.pc[base:]:
      (a if c.get_id() in self.ax else g).append(c)
    return g, a

  def harr(self, key, sort, is_ref=False, owned=False):
    """Heap array for field key; created unconstrained (arbitrary pre-state) on first use.

    Pre-state reference fields only hold pre-existing objects (refs in 0..ALLOC_BASE-1): objects allocated during the
    verified activation are fresh."""
    a = self.heap.get(key)
    if a is None:
      if key == ('dict', 'keys'):
        is_ref = True
      # an array first touched after a havoc of the whole heap is *not* the pre-state array (which `old` would name H0)
      prefix = 'H0'
      if self.epoch[0] > 0:
        prefix = 'HL%d' % self.epoch[0]
      elif self.epoch[1] > 0 and key not in self.private_keys and key[0] not in ('list', 'dict'):
        prefix = 'HU%d' % self.epoch[1]
      a = z3.Const('%s_%s_%s' % ((prefix,) + tuple(key)), z3.ArraySort(z3.IntSort(), sort))
      self.heap[key] = a
      r = z3.Int('h0r')
      if is_ref and sort == z3.IntSort():
        self.axiom(z3.ForAll([r], z3.Implies(r < ALLOC_BASE, z3.And(z3.Select(a, r) >= 0, z3.Select(a, r) < ALLOC_BASE))))
        if is_ref and not owned and key != ('dict', 'keys'):
          # a container that some slot owns is referenced by that slot only: other reference fields never point to it
          ctag = z3.Function('container_tag', z3.IntSort(), z3.IntSort())
          self.axiom(z3.ForAll([r], z3.Implies(r < ALLOC_BASE, ctag(z3.Select(a, r)) == 0)))
        if owned:
          # separation: an owned container belongs to exactly one (object, field) slot
          ctag = z3.Function('container_tag', z3.IntSort(), z3.IntSort())
          cown = z3.Function('container_owner', z3.IntSort(), z3.IntSort())
          import zlib
          tag = zlib.crc32(('%s.%s' % key).encode()) % 1000003 + 1
          self.axiom(z3.ForAll([r], z3.Implies(z3.And(r < ALLOC_BASE, z3.Select(a, r) != 0),
                                               z3.And(ctag(z3.Select(a, r)) == tag, cown(z3.Select(a, r)) == r))))
        if key == ('dict', 'keys'):
          # the hidden key list of a dict is owned by that dict alone (inverse function owner)
          owner = z3.Function('keylist_owner', z3.IntSort(), z3.IntSort())
          self.axiom(z3.ForAll([r], z3.Implies(r < ALLOC_BASE, owner(z3.Select(a, r)) == r)))
          ctag = z3.Function('container_tag', z3.IntSort(), z3.IntSort())
          self.axiom(z3.ForAll([r], z3.Implies(r < ALLOC_BASE, ctag(z3.Select(a, r)) == -1)))
      elif key in (('list', 'items'),):
        i = z3.Int('h0i')
        e = z3.Select(z3.Select(a, r), i)
        self.axiom(z3.ForAll([r, i], z3.Implies(z3.And(r < ALLOC_BASE, Val.is_VR(e)), z3.And(Val.r(e) > 0, Val.r(e) < ALLOC_BASE))))
      elif key in (('dict', 'val'),):
        k = z3.Const('h0k', Val)
        e = z3.Select(z3.Select(a, r), k)
        self.axiom(z3.ForAll([r, k], z3.Implies(z3.And(r < ALLOC_BASE, Val.is_VR(e)), z3.And(Val.r(e) > 0, Val.r(e) < ALLOC_BASE))))
    return a
