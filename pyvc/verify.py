"""Contract application at call sites and verification of one function against its contract."""
import ast
import time
import traceback

import z3

from pyvc import values as vv
from pyvc.values import (Val, V, VNone, NONE, VBool, VInt, VFloat, VStr, VBytes, VEnum, VRef, VVal, VTuple,
                         VClass, VCallable, VOpaque, VFunc, VBuiltin, VModule, Raised, Unsupported, fresh,
                         Kind, parse_kind)
from pyvc.loader import ClassInfo, EnumInfo, BUILTIN_EXC, builtin_exc_is_sub
from pyvc.state import State, Obligation, Ctx, ALLOC_BASE
from pyvc.engine import ExprMixin, VPyDict, VGen
from pyvc.engine2 import AccessMixin
from pyvc.engine3 import CallMixin, StmtMixin
from pyvc.engine4 import SpecMixin
from pyvc.heapops import HeapMixin
from pyvc.ops import OpsMixin
from pyvc.builtins import BuiltinMixin


class Exec(ExprMixin, AccessMixin, CallMixin, StmtMixin, SpecMixin, HeapMixin, OpsMixin, BuiltinMixin):

  def __init__(self, ctx):
    self.ctx = ctx
    State.private_keys = frozenset(ctx.registry.private_fields)
    self.call_stack = []
    self.cur_func = None
    self.cur_node = None
    self.spec_mode = False
    self.unit_contract = None
    self.unit_func = None
    self.old_state = None
    self.param_counter = 10

  # ------------------------------------------------------------------ symbolic inputs
  def make_input(self, st, name, kind, cls_hint=None):
    kind = parse_kind(kind)
    t = kind.tag
    if t == 'py':
      raise Unsupported('python-side parameter %s must be created by a setup hook' % name)
    if t in ('ref', 'exc', 'list', 'dict', 'set', 'tuple'):
      self.param_counter += 1
      oid = self.param_counter
      if kind.nullable:
        term = z3.Int('in_' + name)
        st.assume(z3.Or(term == 0, term == oid))
      else:
        term = z3.IntVal(oid)
      v = self.wrap(st, term, kind)
      if t == 'ref' and isinstance(v.cls, ClassInfo):
        subs = [c for c in self.ctx.registry.subclasses(v.cls) if not c.is_abstract_class] or self.ctx.registry.subclasses(v.cls)
        st.assume(z3.Or(term == 0, *[st.classof(term) == c.uid for c in subs]))
        self.assume_class_invariants(st, v)
      if t in ('list', 'tuple'):
        st.assume(z3.Or(term == 0, self.list_len(st, VRef(t, term)) >= 0))
      if t in ('list', 'tuple', 'dict', 'set'):
        # a container handed in as a parameter is an ordinary object: not the hidden key list of some dict and not a
        # container owned by a record slot
        st.axiom(z3.Function('container_tag', z3.IntSort(), z3.IntSort())(term) == 0)
      return v
    term = z3.Const('in_' + name, kind.sort())
    v = self.wrap(st, term, kind)
    if t == 'val' and kind.tags:
      st.assume(z3.Or(*[self.recog(tag, term) for tag in kind.tags]))
      st.tags[term.get_id()] = tuple(kind.tags)
    if t == 'fn' and not kind.nullable:
      st.assume(term != 0)
    return v

  # ------------------------------------------------------------------ contract application (call site)
  def contract_env(self, st, con, finfo, args, kwargs):
    if args and args[0] is None:
      args = [NONE] + list(args[1:])
    env = self.bind_params(st, finfo, args, kwargs)
    return {k: v for k, v in env.items()}

  def apply_contract(self, st, con, finfo, args, kwargs, ctor_cls=None):
    if con.coroutine_:
      return self.make_coroutine(st, con, finfo, args, kwargs)
    self.ctx.use_trusted('contract:%s' % con.name) if not con.verify else None
    env = self.contract_env(st, con, finfo, args, kwargs)
    site = '%s->%s' % (self.cur_func.qualname if self.cur_func else '?', con.name)
    caller_env = st.env
    # a parameter the contract declares as ref:X, passed an object statically known only as a base class of X: the
    # declared class is an (implicit) precondition, checked here, and the contract is read with the narrowed view
    for pname, kind in con.params.items():
      a = env.get(pname)
      # a contract written for scalar arguments must not be applied to a container argument (its clauses would be assumed
      # for a case they were never verified for): the unit is undecided instead
      if kind.tag == 'val' and kind.tags and not self.spec_mode:
        static = 'tuple' if isinstance(a, VTuple) else (a.cls if isinstance(a, VRef) and a.cls in ('list', 'tuple', 'dict', 'set') else None)
        if static is not None and static not in kind.tags and 'ref' not in kind.tags:
          raise Unsupported('argument %s of %s is a %s, the contract declares %r' % (pname, con.name, static, kind.tags))
      if kind.tag == 'ref' and isinstance(a, VRef) and isinstance(a.cls, ClassInfo) and not self.spec_mode:
        want = self.ctx.registry.class_named(kind.arg)
        if isinstance(want, ClassInfo) and want is not a.cls and want.is_subclass_of(a.cls):
          st.env = caller_env
          self.ctx.obligations.append(Obligation(
              '%s/pre.%s.%s_is_a_%s@%s' % (self.ctx.unit, con.name, pname, want.name, self.stmt_key(self.cur_node)), 'pre',
              list(st.pc), z3.Or(a.t == 0, self.isinstance_term(st, a, VClass(want))), site, {}))
          env[pname] = VRef(want, a.t, nullable=a.nullable, elem=a.elem)
    st.env = env
    try:
      if not self.spec_mode:
        for rname, rexpr in con.requires_:
          if self.mentions_unset_ghost(st, rexpr):
            continue
          self.spec_obligation(st, rexpr, '%s/pre.%s.%s@%s' % (self.ctx.unit, con.name, rname, self.stmt_key(self.cur_node)),
                               'pre', where=site)
          st.assume(self.eval_spec_merged(st, rexpr))
      old = st.fork()
      lets = {}
      for lname, lexpr in con.lets_:
        lets[lname] = self.eval_spec_value(st, lexpr)
      out = []
      exits = [('normal', None)] + [('raise', r) for r in con.raises_]
      for n, (how, r) in enumerate(exits):
        s = st.fork() if n < len(exits) - 1 else st
        s.env = dict(env)
        s.env.update(lets)
        if con.modifies_ is None:
          self.havoc_heap(s, ['*'])
        else:
          self.havoc_heap(s, [m for m in con.modifies_ if not self.mentions_unset_ghost(s, m)], None)
        self.havoc_callee_ghosts(s, con)
        saved_old = self.old_state
        self.old_state = old
        self._calls = getattr(self, '_calls', 0) + 1
        saved_region = getattr(self, 'fresh_region', None)
        self.fresh_region = 2000000 + self._calls * 100000
        try:
          if how == 'normal':
            result = NONE
            if con.returns_ is not None and con.function_of_ is not None:
              saved_env = s.env
              from pyvc.values import VSnap
              argv = []
              for e in con.function_of_:
                av = self.eval_spec_value(old, e)
                if isinstance(av, VSnap):
                  argv.extend([av.a, av.b])        # a container snapshot: the function depends on its contents
                else:
                  argv.append(self.to_val(s, av))
              f = z3.Function('fn_' + con.name.replace('.', '_').replace('[', '_').replace(']', '_'),
                              *([a.sort() for a in argv] + [con.returns_.sort()]))
              result = self.wrap(s, f(*argv), con.returns_)
            elif con.returns_ is not None:
              result = self.make_result(s, con.returns_)
            extra = {'result': result}
            for ename, eexpr in con.ensures_:
              if self.mentions_unset_ghost(s, eexpr):
                continue
              s.assume(self.eval_spec_merged(s, eexpr, extra))
            hook = con.hooks.get('after_call')
            if hook:
              hook(self, s, env, result)
            res = result
          else:
            exc_name, when, ens = r
            exc = self.make_exception(s, exc_name)
            extra = {'exc': exc}
            if when is not None and not self.mentions_unset_ghost(s, when):
              s.assume(self.eval_spec_merged(s, when, extra))
            for ename, eexpr in ens:
              if self.mentions_unset_ghost(s, eexpr):
                continue
              s.assume(self.eval_spec_merged(s, eexpr, extra))
            hook = con.hooks.get('on_raise')
            if hook:
              hook(self, s, env, exc)
            res = Raised(exc)
        finally:
          self.old_state = saved_old
          self.fresh_region = saved_region
        s.env = dict(caller_env)
        if self.feasible(s):
          out.append((s, res))
      return out
    finally:
      if st.env is env:
        st.env = caller_env

  def make_result(self, st, kind):
    t = kind.tag
    if t == 'ptuple':
      return VTuple([self.make_result(st, k) for k in kind.elem])
    if t in ('ref', 'list', 'dict', 'set', 'tuple', 'exc'):
      term = fresh('res', z3.IntSort())
      if not kind.nullable:
        st.assume(term != 0)
      return self.wrap(st, term, kind)
    if t == 'none':
      return NONE
    return self.wrap(st, fresh('res', kind.sort()), kind)

  def make_exception(self, st, exc_name, exact=None):
    if exc_name in BUILTIN_EXC:
      e = self.alloc(st, 'exc:' + exc_name, exact=(exc_name not in ('Exception', 'BaseException') if exact is None else exact))
      if not e.exact:
        # user code never raises the framework's private exception classes (assumption listed in evidence)
        for n in self.ctx.registry.private_exceptions:
          st.axiom(st.classof(e.t) != self.class_by_name(n).uid)
      return e
    cls = self.class_by_name(exc_name)
    return self.alloc(st, cls, exact=True if exact is None else exact)

  # ------------------------------------------------------------------ old()
  def eval_old(self, st, node):
    if self.old_state is None:
      raise Unsupported('old() outside a postcondition')
    o = self.old_state.fork()
    o.pc = list(st.pc)
    o.tags = dict(st.tags)
    env = dict(self.old_state.env)
    # let-bound names and spec extras stay visible
    for k, v in st.env.items():
      if k not in env:
        env[k] = v
    o.env = env
    rs = self.eval(o, node)
    out = []
    for s, v in rs:
      s2 = st.fork() if len(rs) > 1 else st
      for c in s.pc[len(st.pc):]:
        if c.get_id() in s.ax:
          s2.axiom(c)
        else:
          s2.assume(c)
      s2.tags.update(s.tags)
      self.lift_ghost(s2, s)
      out.append((s2, v))
    return out

  # ------------------------------------------------------------------ unit verification
  def verify_unit(self, con):
    """Symbolically execute con.finfo against con; fills ctx.obligations. Returns summary dict."""
    ctx = self.ctx
    ctx.opts = dict(con.opts)
    ctx.opts['loops'] = con.loops_
    self.unit_contract = con
    finfo = con.finfo
    self.unit_func = finfo
    st = State()
    args_env = {}
    a = finfo.node.args
    params = [p.arg for p in a.posonlyargs + a.args] + [p.arg for p in a.kwonlyargs]
    if a.vararg:
      params.append(a.vararg.arg)
    if a.kwarg:
      params.append(a.kwarg.arg)
    pre_made = {}
    for hook in con.setup_:
      r = hook(self, st, pre_made)
    for p in params:
      if p in pre_made:
        args_env[p] = pre_made[p]
      elif p in con.params:
        args_env[p] = self.make_input(st, p, con.params[p])
      elif p in ('self', 'cls') and finfo.cls is not None and isinstance(finfo.cls, ClassInfo):
        if p == 'cls':
          args_env[p] = VClass(finfo.cls)
        else:
          args_env[p] = self.make_input(st, p, Kind('ref', arg=finfo.cls.name))
          args_env[p].cls = finfo.cls
          if con.opts.get('exact_self'):
            args_env[p].exact = True        # the contract is about this class's own methods (no subclass overrides)
      else:
        d = self.param_default(finfo, p)
        if d is None:
          raise Unsupported('no kind declared for parameter %s of %s' % (p, con.name))
        args_env[p] = self.eval_default(st, finfo, d, None)
    for pname, pv in args_env.items():
      self.observe_object(st, pname, pv)
    for g, kind in con.ghost_.items():
      if kind in ('seq', 'seq[str]', 'seq[int]'):
        from pyvc.values import VSeq
        rng = {'seq': Val, 'seq[str]': z3.StringSort(), 'seq[int]': z3.IntSort()}[kind]
        st.ghost[g] = VSeq(z3.Const('ghost_' + g, z3.ArraySort(z3.IntSort(), rng)))
        continue
      st.ghost[g] = self.make_input(st, 'ghost_' + g, kind)
    env = {'$module': finfo.module, '$closure': pre_made.get('$closure'), '$func': finfo}
    env.update(args_env)
    st.env = env
    for rname, rexpr in con.requires_:
      st.assume(self.eval_spec_merged(st, rexpr))
    if not self.feasible(st):
      ctx.obligations.append(Obligation('%s/cover.requires' % ctx.unit, 'cover', [], z3.BoolVal(False), '',
                                        {'msg': 'precondition is unsatisfiable (vacuous contract)'}))
      return {'paths': 0}
    ctx.covers.append(('%s/cover.requires' % ctx.unit, list(st.pc)))
    for cname, cexpr in con.cover_:
      ctx.covers.append(('%s/cover.%s' % (ctx.unit, cname), list(st.pc) + [self.eval_spec_merged(st, cexpr)]))
    lets = {}
    for lname, lexpr in con.lets_:
      lets[lname] = self.eval_spec_value(st, lexpr)
    for label, oexpr in con.observe_:
      try:
        ov = self.eval_spec_value(st.fork(), oexpr)
        if hasattr(ov, 't') and not isinstance(ov.t, (int, str)):
          ctx.observe.append((label, ov.t))
      except Unsupported:
        pass
    old = st.fork()
    self.old_state = old
    body_state = st.fork()
    if finfo.is_contextmanager and con.hooks.get('with_body'):
      # a context-manager generator is verified together with a harness body supplied by the contract
      from pyvc.engine3 import VCtxMgr
      cm = VCtxMgr(finfo, [args_env[p] for p in params], {}, pre_made.get('$closure'))
      body_state.env = dict(env)
      holder = {}
      def run_body(s, _h=holder):
        return con.hooks['with_body'](self, s, s.env.get('$cm_target'))
      import ast as _ast
      tgt = _ast.Name(id='$cm_target', ctx=_ast.Store())
      rs = self.enter_cm(body_state, cm, tgt, run_body)
      results = [(s, Raised(c[1]) if (c is not None and c[0] == 'raise') else NONE) for s, c in rs]
    elif False:
      results = []
    else:
     results = self.call_function(body_state, finfo, [args_env[p] for p in params if p in args_env and p not in
                                                   ([a.vararg.arg] if a.vararg else []) + ([a.kwarg.arg] if a.kwarg else [])],
                                 {}, closure=pre_made.get('$closure')) \
        if not (a.vararg or a.kwarg) else self.run_with_star(body_state, finfo, args_env, pre_made)
    paths = 0
    for s, r in results:
      paths += 1
      s.env = dict(env)
      s.env.update(lets)
      if isinstance(r, Raised):
        self.check_exceptional_exit(s, con, r.exc)
      elif con.coroutine_:
        ctx.obligations.append(Obligation('%s/co.the_generator_never_finishes' % ctx.unit, 'post', list(s.pc), z3.BoolVal(False), '',
                                          {'msg': 'the generator body returns: the next send() raises StopIteration in the caller'}))
      else:
        extra = {'result': r}
        for ename, eexpr in con.ensures_:
          self.spec_obligation(s, eexpr, '%s/post.%s' % (ctx.unit, ename), 'post', extra)
        hook = con.hooks.get('at_exit')
        if hook:
          hook(self, s, r)
      for g in sorted(con.ghost_const):
        if g not in con.ghost_:
          continue          # defined by a model hook of the contract file (e.g. the serialization the fs model compares with)
        a, b = old.ghost.get(g), s.ghost.get(g)
        if a is not None and b is not None and hasattr(a, 't') and not a.t.eq(b.t):
          ctx.obligations.append(Obligation('%s/ghost.%s_is_left_unchanged' % (ctx.unit, g), 'frame', list(s.pc), a.t == b.t, '', {}))
      if tuple(s.locks) != tuple(old.locks):
        ctx.obligations.append(Obligation('%s/lock.every_acquired_lock_is_released_at_exit' % ctx.unit, 'lock', list(s.pc), z3.BoolVal(False), '',
                                          {'msg': 'locks held at exit: %s (at entry: %s)' % (list(s.locks), list(old.locks))}))
      self.check_frame(old, s, con)
    normal = len([1 for _s, _r in results if not isinstance(_r, Raised)])
    if normal == 0 and con.ensures_ and not con.coroutine_ and not con.opts.get('never_returns'):
      # every path ends in an exception (or was lost): the postconditions would hold vacuously
      ctx.covers.append(('%s/cover.some_path_returns_normally (no path reaches a normal return: the ensures clauses are vacuous)' % ctx.unit,
                         [z3.BoolVal(False)]))
    ctx.paths += paths
    if paths == 0 and not (con.coroutine_ and getattr(ctx, 'co_cuts', 0) > 0):
      ctx.obligations.append(Obligation('%s/cover.paths' % ctx.unit, 'cover', [], z3.BoolVal(False), '',
                                        {'msg': 'no feasible path through the function'}))
    return {'paths': paths}

  _GHOST_RE = __import__('re').compile(r"ghost\('([^']+)'\)")

  # ------------------------------------------------------------------ coroutines (generators driven by next / send)
  def co_suspend(self, s):
    """The generator under verification is about to execute a statement `x (op)= yield`: a suspension point, where
    the path is cut.  Returns False when the path ends here (second suspension)."""
    con = self.unit_contract
    spec = con.coroutine_
    unit = self.ctx.unit
    resumed = s.ghost.get('$co_resume')
    saved_old = self.old_state
    try:
      if resumed is None:
        for n, ex_ in spec['init']:
          self.spec_obligation(s, ex_, '%s/co.init.%s' % (unit, n), 'post')
      else:
        snap, sent = resumed
        self.old_state = snap
        for n, ex_ in spec['step']:
          self.spec_obligation(s, ex_, '%s/co.step.%s' % (unit, n), 'post', {'sent': sent})
      for n, ex_ in spec['inv']:
        self.spec_obligation(s, ex_, '%s/co.inv.%s' % (unit, n), 'post')
    finally:
      self.old_state = saved_old
    self.ctx.paths += 1
    self.ctx.co_cuts = getattr(self.ctx, 'co_cuts', 0) + 1
    if resumed is not None:
      return False                     # second suspension on this path: cut
    # resume from an arbitrary suspended state satisfying the invariant, with an arbitrary sent value
    for name, kind in spec['state'].items():
      s.env[name] = self.make_result(s, kind)
    if con.modifies_ is None:
      self.havoc_heap(s, ['*'])
    elif con.modifies_:
      self.havoc_heap(s, list(con.modifies_), None)
    for g in con.ghost_:
      if g in con.ghost_const or g not in s.ghost:
        continue
      if isinstance(s.ghost[g], (VInt, VStr)) or type(s.ghost[g]).__name__ == 'VSeq':
        s.ghost[g] = type(s.ghost[g])(fresh('co_' + g, s.ghost[g].t.sort()))
    for n, ex_ in spec['inv']:
      s.assume(self.eval_spec_merged(s, ex_))
    sent = self.make_result(s, spec['send'])
    s.ghost['$co_resume'] = (s.fork(), sent)
    s.ghost['$co_sent'] = sent
    return True

  def co_yield(self, st, e):
    """The yield expression itself (the statement prelude co_suspend already cut the path): its value is what was sent."""
    con = self.unit_contract
    if con is None or not con.coroutine_ or self.call_stack[1:] or self.spec_mode or '$co_sent' not in st.ghost:
      raise Unsupported('yield expression outside a coroutine under contract')
    return [(st, st.ghost.pop('$co_sent'))]

  def co_fields_env(self, st, obj, con, env):
    e = dict(env)
    for name in con.coroutine_['state']:
      e[name] = self.read_field(st, obj, name)
    return e

  def make_coroutine(self, st, con, finfo, args, kwargs):
    env = self.contract_env(st, con, finfo, args, kwargs)
    obj = self.alloc(st, 'gen:' + con.name)
    st.pyheap[(self.oid_of(obj), '$co')] = (con, env, False)
    return [(st, obj)]

  def co_resume(self, st, obj, sent):
    """next(gen) (sent is None) or gen.send(sent) on a generator object created from a coroutine contract."""
    oid = self.oid_of(obj)
    rec = st.pyheap.get((oid, '$co')) if oid is not None else None
    if rec is None:
      raise Unsupported('send / next on a generator that was not created from a coroutine contract')
    con, env, started = rec
    spec = con.coroutine_
    if (sent is None) == started:
      raise Unsupported('coroutine protocol: next() exactly once, then send()')
    caller_env = st.env
    pre = st.fork()
    pre.env = self.co_fields_env(pre, obj, con, env) if started else dict(env)
    for name, kind in spec['state'].items():
      self.write_field(st, obj, name, self.make_result(st, kind))
    if started:
      if con.modifies_ is None:
        self.havoc_heap(st, ['*'])
      elif con.modifies_:
        st.env = dict(pre.env)
        self.havoc_heap(st, [m for m in con.modifies_ if not self.mentions_unset_ghost(st, m)], None)
      self.havoc_callee_ghosts(st, con)
    st.env = self.co_fields_env(st, obj, con, env)
    saved_old = self.old_state
    self.old_state = pre
    try:
      clauses = spec['step'] if started else spec['init']
      for n, ex_ in clauses:
        if not self.mentions_unset_ghost(st, ex_):
          st.assume(self.eval_spec_merged(st, ex_, {'sent': sent} if started else None))
      for n, ex_ in spec['inv']:
        if not self.mentions_unset_ghost(st, ex_):
          st.assume(self.eval_spec_merged(st, ex_))
    finally:
      self.old_state = saved_old
    st.env = caller_env
    st.pyheap[(oid, '$co')] = (con, env, True)
    return [(st, NONE)]

  def havoc_callee_ghosts(self, st, con):
    """Ghost variables the callee's contract declares (and does not mark const) may be changed by the call: their new
    values are whatever the callee's postconditions say."""
    from pyvc.values import VSeq
    named = set(con.ghost_)
    for _, e in con.ensures_:
      named.update(self._GHOST_RE.findall(e))
    for g in sorted(named):
      if g in con.ghost_const or g not in st.ghost:
        continue
      v = st.ghost[g]
      if isinstance(v, VInt):
        st.ghost[g] = VInt(fresh('cg_' + g, z3.IntSort()))
      elif isinstance(v, VSeq):
        st.ghost[g] = VSeq(fresh('cg_' + g, v.t.sort()))
      elif isinstance(v, VStr):
        st.ghost[g] = VStr(fresh('cg_' + g, z3.StringSort()))
      elif isinstance(v, VBool):
        st.ghost[g] = VBool(fresh('cg_' + g, z3.BoolSort()))
      elif isinstance(v, VVal):
        st.ghost[g] = VVal(fresh('cg_' + g, Val))

  def mentions_unset_ghost(self, st, expr):
    """Call sites only: a contract clause over a ghost variable that the unit under verification did not declare
    constrains nothing the unit can observe and is skipped."""
    return any(g not in st.ghost for g in self._GHOST_RE.findall(expr))

  def observe_object(self, st, label, v):
    if isinstance(v, VRef) and isinstance(v.cls, ClassInfo):
      for (cname, f), kind in self.ctx.registry.fields.items():
        if kind.tag != 'py' and any(c.name == cname for c in v.cls.mro()):
          self.ctx.observe.append(('%s.%s' % (label, f), z3.Select(st.harr((cname, f), kind.sort(), is_ref=kind.tag in ('ref', 'exc', 'list', 'dict', 'set', 'tuple'), owned=getattr(kind, 'owned', False)), v.t)))
    elif isinstance(v, VRef) and v.cls in ('list', 'tuple'):
      self.ctx.observe.append(('len(%s)' % label, self.list_len(st, v)))
      for i in range(4):
        self.ctx.observe.append(('%s[%d]' % (label, i), z3.Select(self.list_items(st, v), i)))

  def run_with_star(self, st, finfo, args_env, pre_made):
    a = finfo.node.args
    pos = [args_env[p.arg] for p in a.posonlyargs + a.args]
    kwargs = {p.arg: args_env[p.arg] for p in a.kwonlyargs}
    if a.vararg:
      va = args_env[a.vararg.arg]
      if not isinstance(va, VTuple):
        raise Unsupported('*args parameter must be created by setup as VTuple')
      pos += va.items
    if a.kwarg:
      kw = args_env[a.kwarg.arg]
      if isinstance(kw, VPyDict):
        kwargs.update(kw.d)
      else:
        kwargs['$kwargs'] = kw
    return self.call_function(st, finfo, pos, kwargs, closure=pre_made.get('$closure'))

  def param_default(self, finfo, p):
    a = finfo.node.args
    names = [x.arg for x in a.posonlyargs + a.args]
    defaults = [None] * (len(names) - len(a.defaults)) + list(a.defaults)
    for n, d in zip(names, defaults):
      if n == p:
        return d
    for x, d in zip(a.kwonlyargs, a.kw_defaults):
      if x.arg == p:
        return d
    return None

  def check_exceptional_exit(self, st, con, exc):
    ctx = self.ctx
    sc = self.exc_class_of(exc)
    scname = sc.name if isinstance(sc, ClassInfo) else sc
    # which declared exits can this exception belong to?
    conds = []
    for (exc_name, when, ens) in con.raises_:
      target = VClass(exc_name) if exc_name in BUILTIN_EXC else VClass(self.class_by_name(exc_name))
      c = self.isinstance_term(st, exc, target)
      conds.append((exc_name, when, ens, z3.simplify(c)))
    allowed = z3.Or(*[c for (_, _, _, c) in conds]) if conds else z3.BoolVal(False)
    origin = st.pyheap.get((self.oid_of(exc), '$origin')) if self.oid_of(exc) is not None else None
    ctx.obligations.append(Obligation('%s/exc.unexpected.%s' % (ctx.unit, scname), 'exc', st.pc, allowed,
                                      '', {'msg': 'exception %s escapes but is not a declared exit' % scname}))
    for (exc_name, when, ens, c) in conds:
      if z3.is_false(c):
        continue
      s = st.fork()
      s.assume(c)
      if not self.feasible(s):
        continue
      extra = {'exc': exc}
      if when is not None:
        self.spec_obligation(s, when, '%s/exc.%s.when' % (ctx.unit, exc_name), 'post', extra)
      for ename, eexpr in ens:
        self.spec_obligation(s, eexpr, '%s/exc.%s.%s' % (ctx.unit, exc_name, ename), 'post', extra)

  def check_frame(self, old, st, con):
    if con.modifies_ is None:
      return
    env = dict(old.env)
    o = old.fork()
    allowed = self.allowed_keys(o, con.modifies_, None)
    if allowed is None:
      return
    # object-specific patterns: only that object's slot may differ
    slots = {}
    for p in con.modifies_:
      if p in ('list', 'dict', '*', '*user') or p.startswith(('list(', 'dict(', 'owned(')):
        continue
      head, field = p.rsplit('.', 1)
      if (head, field) in self.ctx.registry.fields:
        continue
      obj = self.eval_spec_value(o, head)
      fk = self.field_kind(obj.cls, field) if isinstance(obj, VRef) else None
      if fk is not None:
        slots.setdefault((fk[0], field), []).append(obj.t)
    whole = set()
    for p in con.modifies_:
      if '.' in p and not p.startswith(('list(', 'dict(', 'owned(')):
        head, field = p.rsplit('.', 1)
        if (head, field) in self.ctx.registry.fields:
          whole.add((head, field))
    containers = self.container_exempt(o, con.modifies_)
    for key in self.heap_changed_keys(old, st):
      if key in whole:
        continue
      if key in allowed and key not in slots:
        if key[0] in ('list', 'dict') and containers is not None:
          self.container_frame_obligation(old, st, key, containers, ALLOC_BASE, '%s/frame.%s.%s' % (self.ctx.unit, key[0], key[1]), '')
        continue
      oldarr = old.heap.get(key)
      if oldarr is None:
        from pyvc.engine4 import base_array
        oldarr = base_array(st.heap[key])
      r = fresh('fr', z3.IntSort())
      excl = [r != t for t in slots.get(key, [])]
      goal = z3.ForAll([r], z3.Implies(z3.And(r < ALLOC_BASE, r != 0, *excl),
                                       z3.Select(st.heap[key], r) == z3.Select(oldarr, r)))
      self.ctx.obligations.append(Obligation('%s/frame.%s.%s' % (self.ctx.unit, key[0], key[1]), 'frame', st.pc, goal,
                                             '', {'msg': 'writes outside the modifies clause'}))

  def owned_tag(self, pattern):
    """'owned(Class.field)' -> ownership tag of the containers stored in that slot (see State.harr)."""
    import zlib
    return zlib.crc32(pattern[6:-1].encode()) % 1000003 + 1

  def container_exempt(self, o, patterns, env=None):
    """Which pre-existing containers a modifies list lets a function change: (refs, predicates) evaluated in the
    pre-state o, or None when the list names a whole container class ('list', 'dict', '*')."""
    refs, preds = [], []
    ctag = z3.Function('container_tag', z3.IntSort(), z3.IntSort())
    kown = z3.Function('keylist_owner', z3.IntSort(), z3.IntSort())
    for p in patterns:
      if p in ('*', '*user', 'list', 'dict'):
        return None
      if p.startswith('owned('):
        tag = self.owned_tag(p)
        preds.append(lambda r, tag=tag: z3.Or(ctag(r) == tag, z3.And(ctag(r) == -1, ctag(kown(r)) == tag)))
        continue
      if p.startswith('list(') or p.startswith('dict('):
        if self.mentions_unset_ghost(o, p):
          continue
        ref = self.eval_spec_value(o.fork(), p[5:-1], env)
        refs.append(ref.t)
        if p.startswith('dict('):
          refs.append(self.dict_keys(o.fork(), ref).t)
        continue
      if '.' in p and not p.startswith('owned('):
        head, field = p.rsplit('.', 1)
        kind = self.ctx.registry.fields.get((head, field))
        if kind is not None and kind.tag in ('list', 'dict', 'set', 'tuple') and not getattr(kind, 'owned', False):
          return None          # a whole slot of (shared) containers may be re-pointed: stay coarse
    return refs, preds

  def container_frame_obligation(self, old, st, key, containers, bound, name, where):
    refs, preds = containers
    oldarr = old.heap.get(key)
    if oldarr is None:
      from pyvc.engine4 import base_array
      oldarr = base_array(st.heap[key])
    r = fresh('fr', z3.IntSort())
    cond = [r < bound, r != 0] + [r != t for t in refs] + [z3.Not(pr(r)) for pr in preds]
    goal = z3.ForAll([r], z3.Implies(z3.And(*cond), z3.Select(st.heap[key], r) == z3.Select(oldarr, r)))
    self.ctx.obligations.append(Obligation(name, 'frame', st.pc, goal, where,
                                           {'msg': 'a container outside the modifies clause is written'}))
