"""Models of Python builtins, container/str methods and the trusted stdlib surface."""
import ast

import z3

from pyvc import values as vv
from pyvc.values import (Val, V, VNone, NONE, VBool, VInt, VFloat, VStr, VBytes, VEnum, VRef, VVal, VTuple,
                         VClass, VCallable, VOpaque, VFunc, VBuiltin, VModule, VSuper, Raised, Unsupported,
                         fresh, Kind, parse_kind, F64, RNE)
from pyvc.loader import ClassInfo, EnumInfo, BUILTIN_EXC
from pyvc.state import ALLOC_BASE
from pyvc.ops import VTypeSym


def _logger_method(name):
  def impl(ex, st, args, kwargs):
    if name == 'getChild':
      return [(st, VRef('logger', 2))]
    if name in ('debug', 'info', 'warning', 'error', 'critical', 'exception', 'log') and len(args) >= 2:
      # arity obligation for constant %-formats (a mismatch is swallowed by logging, so it is reported separately)
      fmt = args[1]
      if isinstance(fmt, VStr) and z3.is_string_value(z3.simplify(fmt.t)) and len(args) > 2:
        import re
        text = z3.simplify(fmt.t).as_string()
        n = len([x for x in re.findall(r'%(?:\(\w+\))?[-#0 +]*\d*(?:\.\d+)?([sdrxXfgeic%])', text) if x != '%'])
        if '%(' not in text and n != len(args) - 2:
          ex.safety(st, z3.BoolVal(False), 'log_format_arity', 'log format %r expects %d args, got %d' % (text, n, len(args) - 2))
    ex.ctx.use_trusted('logging')
    return [(st, NONE)]
  return impl


def _need(n, args, name):
  if len(args) != n:
    raise Unsupported('%s expects %d arguments' % (name, n))


class BuiltinMixin(object):

  # ------------------------------------------------------------------ names
  def builtin_name(self, name):
    if name in ('True', 'False'):
      return VBool(name == 'True')
    if name == 'None':
      return NONE
    if name in ('int', 'float', 'str', 'bool', 'bytes', 'list', 'tuple', 'dict', 'set', 'object', 'type', 'frozenset',
                'bytearray'):
      return VClass(name)
    if name in BUILTIN_EXC:
      return VClass(name)
    impl = getattr(self, 'b_' + name, None)
    if impl is not None:
      return VBuiltin(name, lambda ex, st, a, k, _i=impl: _i(st, a, k))
    if 'builtins.' + name in self.ctx.registry.externals:
      return self.ctx.registry.externals['builtins.' + name](self)
    return None

  def external(self, dotted):
    reg = self.ctx.registry.externals
    if dotted in reg:
      return reg[dotted](self)
    impl = getattr(self, 'x_' + dotted.replace('.', '_'), None)
    if impl is not None:
      return VBuiltin(dotted, lambda ex, st, a, k, _i=impl: _i(st, a, k))
    if dotted in ('typing.Iterable', 'typing.Sequence', 'typing.Mapping', 'typing.Callable'):
      return VClass('collections.abc.' + dotted.split('.')[1])
    if dotted == 'os.linesep':
      return VStr('\n')
    if dotted in ('numbers.Number', 'numbers.Integral', 'numbers.Real', 'collections.abc.Iterable', 'collections.abc.Mapping',
                  'collections.abc.Callable', 'collections.abc.Sequence', 'struct.error', 'queue.Empty', 'yaml.YAMLError',
                  'libusb1.USBError'):
      return VClass(dotted)
    if dotted.split('.')[0] in ('typing', 'typing_extensions'):
      return VOpaque(z3.IntVal(0), dotted)
    head = dotted.split('.')[0]
    if head in ('math', 'sys', 'copy', 'time', 'threading', 'logging', 'os', 'struct', 'binascii', 'functools',
                'itertools', 'collections', 're', 'json', 'base64', 'tempfile', 'shutil', 'traceback', 'queue',
                'weakref', 'numbers', 'contextlib', 'inspect', 'enum', 'abc', 'attr', 'mimetypes', 'socket', 'yaml',
                'six', 'io', 'string', 'operator', 'types', 'uuid', 'pstats', 'cProfile', 'colorama', 'datetime',
                'libusb1', 'usb1', 'builtins', 'textwrap', 'signal', 'argparse', 'zlib', 'hashlib', 'platform', 'select'):
      if dotted.count('.') == 0:
        return VModule(dotted)
    raise Unsupported('external name %s has no model' % dotted)

  # ------------------------------------------------------------------ plain builtins
  def b_len(self, st, args, kwargs):
    _need(1, args, 'len')
    out = []
    for s, v in self.resolve(st, args[0]):
      if isinstance(v, (VStr, VBytes)):
        out.append((s, VInt(z3.Length(v.t))))
      elif isinstance(v, VTuple):
        out.append((s, VInt(len(v.items))))
      elif isinstance(v, VRef) and v.cls in ('list', 'tuple'):
        out.append((s, VInt(self.list_len(s, v))))
      elif isinstance(v, VRef) and v.cls in ('dict', 'set'):
        out.append((s, VInt(self.list_len(s, self.dict_keys(s, v)))))
      elif isinstance(v, VPyDict_()):
        out.append((s, VInt(len(v.d))))
      elif isinstance(v, VRef) and isinstance(v.cls, ClassInfo) and v.cls.find_method('__len__'):
        out.extend(self.call_function(s, v.cls.find_method('__len__'), [v], {}))
      else:
        out.append((s, self.raise_builtin(s, 'TypeError', 'object has no len()')))
    return out

  def b_isinstance(self, st, args, kwargs):
    _need(2, args, 'isinstance')
    out = []
    if isinstance(args[0], VVal) and isinstance(args[1], (VClass, VTuple)):
      t = self.isinstance_val(st, args[0].t, args[1])
      if t is not None:
        return [(st, VBool(z3.simplify(t)))]
      views = self.views(st, args[0])
      if views is not None:
        t = z3.Or(*[z3.And(c, self.isinstance_term(st, tv, args[1])) for c, tv in views])
        return [(st, VBool(z3.simplify(t)))]
    for s, v in self.resolve(st, args[0]):
      tgt = args[1]
      if isinstance(tgt, VVal) and s.tags.get(tgt.t.get_id()) in ('type', ('type',)):
        tgt = VTypeSym(Val.t(tgt.t))
      if isinstance(tgt, VTypeSym) and self.ctx.opts.get('symbolic_types'):
        # arbitrary class object (e.g. a user exception class): an uninterpreted subclass relation on type ids
        tid = st.classof(v.t) if isinstance(v, VRef) else z3.IntVal(-1)
        rel = z3.Function('is_subclass_id', z3.IntSort(), z3.IntSort(), z3.BoolSort())
        out.append((s, VBool(rel(tid, tgt.t))))
      elif isinstance(tgt, VTypeSym):
        for s2, t2 in self.resolve_type(s, tgt):
          out.append((s2, VBool(self.isinstance_term(s2, v, t2))))
      elif isinstance(tgt, VVal):
        for s2, t2 in self.resolve(s, tgt):
          for s3, t3 in self.resolve_type(s2, t2):
            out.append((s3, VBool(self.isinstance_term(s3, v, t3))))
      else:
        out.append((s, VBool(self.isinstance_term(s, v, tgt))))
    return out

  def isinstance_val(self, st, t, target):
    """isinstance(<Val term>, target) without forking, or None when the target needs a resolved value."""
    if isinstance(target, VTuple):
      parts = [self.isinstance_val(st, t, x) for x in target.items]
      return None if any(p is None for p in parts) else z3.Or(*parts)
    if not isinstance(target, VClass):
      return None
    c = target.cls
    table = {'int': z3.Or(Val.is_VI(t), Val.is_VB(t)), 'bool': Val.is_VB(t), 'float': Val.is_VF(t), 'str': Val.is_VS(t),
             'bytes': Val.is_VY(t), 'NoneType': Val.is_VN(t), 'object': z3.BoolVal(True),
             'numbers.Number': z3.Or(Val.is_VI(t), Val.is_VB(t), Val.is_VF(t)),
             'numbers.Integral': z3.Or(Val.is_VI(t), Val.is_VB(t)),
             'numbers.Real': z3.Or(Val.is_VI(t), Val.is_VB(t), Val.is_VF(t))}
    if isinstance(c, str):
      if c in ('list', 'dict', 'set', 'tuple'):
        return z3.And(Val.is_VR(t), st.classof(Val.r(t)) == -vv.TYPE_IDS[c])
      return table.get(c)
    if isinstance(c, EnumInfo):
      return z3.And(Val.is_VE(t), Val.e(t) == c.uid)
    if isinstance(c, ClassInfo):
      subs = self.ctx.registry.subclasses(c)
      return z3.And(Val.is_VR(t), Val.r(t) != 0, z3.Or(*[st.classof(Val.r(t)) == x.uid for x in subs]))
    return None

  def b_issubclass(self, st, args, kwargs):
    _need(2, args, 'issubclass')
    out = []
    for s, a in self.resolve(st, args[0]):
      for s2, a2 in self.resolve_type(s, a):
        b = args[1]
        if isinstance(a2, VCallable) and isinstance(b, VClass):
          # an opaque user class: whether it derives from b is a fixed, unknown fact about that class
          nm = b.cls.name if hasattr(b.cls, 'name') else str(b.cls)
          out.append((s2, VBool(z3.Function('is_subclass_of_' + nm.split('.')[-1], z3.IntSort(), z3.BoolSort())(a2.t))))
          continue
        if not isinstance(a2, VClass) or not isinstance(b, VClass):
          raise Unsupported('issubclass on %r, %r' % (a2, b))
        if isinstance(a2.cls, ClassInfo):
          out.append((s2, VBool(a2.cls.is_subclass_of(b.cls))))
        elif isinstance(a2.cls, str) and isinstance(b.cls, str):
          r = a2.cls == b.cls or (a2.cls == 'bool' and b.cls == 'int') or b.cls == 'object' or \
              (a2.cls in BUILTIN_EXC and b.cls in BUILTIN_EXC and __import__('pyvc.loader', fromlist=['x']).builtin_exc_is_sub(a2.cls, b.cls))
          out.append((s2, VBool(r)))
        else:
          out.append((s2, VBool(False)))
    return out

  def b_type(self, st, args, kwargs):
    _need(1, args, 'type')
    out = []
    for s, v in self.resolve(st, args[0]):
      if isinstance(v, VRef) and isinstance(v.cls, ClassInfo):
        if not v.exact and len(self.ctx.registry.subclasses(v.cls)) > 1:
          self.ctx.use_trusted('type(self) taken as the static class %s' % v.cls.name)
        out.append((s, VClass(v.cls)))
      elif isinstance(v, VRef) and isinstance(v.cls, str):
        out.append((s, VClass(v.cls)))
      elif isinstance(v, VInt):
        out.append((s, VClass('int')))
      elif isinstance(v, VBool):
        out.append((s, VClass('bool')))
      elif isinstance(v, VFloat):
        out.append((s, VClass('float')))
      elif isinstance(v, VStr):
        out.append((s, VClass('str')))
      elif isinstance(v, VBytes):
        out.append((s, VClass('bytes')))
      elif isinstance(v, VNone):
        out.append((s, VClass('NoneType')))
      elif isinstance(v, VEnum):
        out.append((s, VClass(v.enum)))
      elif isinstance(v, VTuple):
        out.append((s, VClass('tuple')))
      else:
        raise Unsupported('type() of %r' % (v,))
    return out

  def b_callable(self, st, args, kwargs):
    v = args[0]
    if isinstance(v, VVal):
      # a value of unknown type: callable exactly when it is (tagged as) a callable object
      return [(st, VBool(Val.is_VC(v.t)))]
    return [(st, VBool(isinstance(v, (VFunc, VBuiltin, VCallable, VClass))))]

  def b_hasattr(self, st, args, kwargs):
    obj, name = args
    nm = z3.simplify(name.t).as_string()
    if isinstance(obj, VRef) and isinstance(obj.cls, ClassInfo):
      r = obj.cls.find_method(nm) is not None or self.has_field(st, obj, nm) or obj.cls.find_class_attr(nm)[1] is not None
      return [(st, VBool(bool(r)))]
    native = {VNone: type(None), VBool: bool, VInt: int, VFloat: float, VStr: str, VBytes: bytes}
    if type(obj) in native:
      return [(st, VBool(hasattr(native[type(obj)], nm)))]
    if isinstance(obj, VVal) and nm != '__len__':
      out = []
      for s, tv in self.resolve(st, obj):
        if type(tv) in native:
          out.append((s, VBool(hasattr(native[type(tv)], nm))))
        else:
          out.extend(self.b_hasattr(s, [tv, name], kwargs))
      return out
    if isinstance(obj, VVal) and nm == '__len__':
      out = []
      for s, tv in self.resolve(st, obj):
        out.append((s, VBool(isinstance(tv, (VStr, VBytes, VTuple)) or (isinstance(tv, VRef) and tv.cls in ('list', 'tuple', 'dict', 'set')))))
      return out
    if isinstance(obj, (VInt, VFloat, VBool, VNone)) and nm == '__len__':
      return [(st, VBool(False))]
    if isinstance(obj, (VStr, VBytes)) and nm == '__len__':
      return [(st, VBool(True))]
    if isinstance(obj, VTuple) or (isinstance(obj, VRef) and obj.cls in ('list', 'tuple', 'dict', 'set')):
      native_c = {'list': list, 'tuple': tuple, 'dict': dict, 'set': set}
      return [(st, VBool(hasattr(tuple if isinstance(obj, VTuple) else native_c[obj.cls], nm)))]
    if isinstance(obj, VCallable):
      # opaque user object: whether it carries the attribute is a fixed, unknown fact about that object
      return [(st, VBool(z3.Function('has_attr_' + nm, z3.IntSort(), z3.BoolSort())(obj.t)))]
    raise Unsupported('hasattr on %r' % (obj,))

  def b_getattr(self, st, args, kwargs):
    obj, name = args[0], args[1]
    nm = z3.simplify(name.t)
    if not z3.is_string_value(nm):
      raise Unsupported('getattr with symbolic name')
    try:
      return self.getattr(st, obj, nm.as_string())
    except Unsupported:
      if len(args) == 3:
        return [(st, args[2])]
      raise

  def b_setattr(self, st, args, kwargs):
    obj, name, val = args
    nm = z3.simplify(name.t)
    if not z3.is_string_value(nm):
      raise Unsupported('setattr with symbolic name')
    return [(s, r if isinstance(r, Raised) else NONE) for s, r in self.setattr(st, obj, nm.as_string(), val)]

  def b_super(self, st, args, kwargs):
    if args:
      cls, obj = args[0].cls, args[1]
    else:
      f = self.cur_func
      cls = f.cls
      obj = st.env.get('self') or st.env.get('cls')
    return [(st, VSuper(cls, obj))]

  def b_abs(self, st, args, kwargs):
    out = []
    for s, v in self.resolve(st, args[0]):
      i = vv.as_intlike(v)
      if i is not None:
        out.append((s, VInt(z3.If(i >= 0, i, -i))))
      elif isinstance(v, VFloat):
        out.append((s, VFloat(vv.f_abs(v.t))))
      else:
        out.append((s, self.raise_builtin(s, 'TypeError', 'bad operand type for abs()')))
    return out

  def b_min(self, st, args, kwargs):
    return self._minmax(st, args, '<')

  def b_max(self, st, args, kwargs):
    return self._minmax(st, args, '>')

  def _minmax(self, st, args, op):
    vals = args if len(args) > 1 else self.iter_values(st, args[0])
    results = [(st, vals[0])]
    for v in vals[1:]:
      nxt = []
      for s, best in results:
        for s2, c in self.compare(s, op, v, best):
          if isinstance(c, Raised):
            nxt.append((s2, c))
            continue
          ib, iv = vv.as_intlike(best), vv.as_intlike(v)
          if ib is not None and iv is not None:
            nxt.append((s2, VInt(z3.If(c.t, iv, ib))))
          else:
            for s3, b in self.branch(s2, c.t):
              nxt.append((s3, v if b else best))
      results = nxt
    return results

  def b_any(self, st, args, kwargs):
    return self._anyall(st, args[0], False)

  def b_all(self, st, args, kwargs):
    return self._anyall(st, args[0], True)

  def _anyall(self, st, it, universal):
    if isinstance(it, VGen_()):
      rs = self.gen_values(st, it)
      if rs is None:
        if not self.spec_mode:
          folded = self.fold_with_exceptions(st, it, universal)
          if folded is not None:
            return folded
        return [(st, VBool(self.quantify(st, it, universal)))]
      out = []
      for s, vals in rs:
        if isinstance(vals, Raised):
          out.append((s, vals))
        else:
          out.extend(self._fold_bool(s, vals, universal))
      return out
    vals = self.concrete_iter(st, it)
    if vals is None:
      if isinstance(it, VRef) and it.cls in ('list', 'tuple'):
        i = fresh('q', z3.IntSort())
        n = self.list_len(st, it)
        el = z3.Select(self.list_items(st, it), i)
        truthy = z3.Or(z3.And(Val.is_VB(el), Val.b(el)), z3.And(Val.is_VI(el), Val.i(el) != 0), Val.is_VR(el))
        rng = z3.And(i >= 0, i < n)
        return [(st, VBool(z3.ForAll([i], z3.Implies(rng, truthy)) if universal else z3.Exists([i], z3.And(rng, truthy))))]
      raise Unsupported('any/all over %r' % (it,))
    return self._fold_bool(st, vals, universal)

  def _fold_bool(self, st, vals, universal):
    acc = [(st, z3.BoolVal(universal))]
    for v in vals:
      nxt = []
      for s, b in acc:
        for s2, t in self.truth(s, v):
          nxt.append((s2, z3.And(b, t) if universal else z3.Or(b, t)))
      acc = nxt
    return [(s, VBool(z3.simplify(b))) for s, b in acc]

  def b_sum(self, st, args, kwargs):
    it = args[0]
    if isinstance(it, VGen_()):
      rs = self.gen_values(st, it)
      if rs is None:
        return self.sum_symbolic(st, it)
      out = []
      for s, vals in rs:
        out.extend(self._sum_vals(s, vals, args[1] if len(args) > 1 else VInt(0)))
      return out
    vals = self.concrete_iter(st, it)
    if vals is None:
      return self.sum_symbolic(st, it)
    return self._sum_vals(st, vals, args[1] if len(args) > 1 else VInt(0))

  def _sum_vals(self, st, vals, start):
    results = [(st, start)]
    for v in vals:
      nxt = []
      for s, acc in results:
        if isinstance(acc, Raised):
          nxt.append((s, acc))
        else:
          nxt.extend(self.arith(s, '+', acc, v))
      results = nxt
    return results

  def sum_symbolic(self, st, it):
    """sum(ord(x) for x in <str>) over a symbolic string: the byte sum, an uninterpreted fold with its defining facts."""
    if isinstance(it, VGen_()):
      node = it.node
      g = node.generators[0] if len(node.generators) == 1 else None
      if g is not None and not g.ifs and isinstance(g.target, ast.Name) and isinstance(node.elt, ast.Call) and \
          isinstance(node.elt.func, ast.Name) and node.elt.func.id == 'ord' and len(node.elt.args) == 1 and \
          isinstance(node.elt.args[0], ast.Name) and node.elt.args[0].id == g.target.id:
        s = st.fork()
        s.env = dict(it.env)
        rs = self.eval(s, g.iter)
        if len(rs) == 1 and isinstance(rs[0][1], (VStr, VBytes)):
          return [(st, VInt(self.bytesum(st, rs[0][1].t)))]
    raise Unsupported('sum over symbolic iterable (use a spec fold)')

  def bytesum(self, st, t):
    f = z3.Function('bytesum', z3.StringSort(), z3.IntSort())
    st.axiom(z3.And(f(t) >= 0, f(t) <= 255 * z3.Length(t), z3.Implies(z3.Length(t) == 0, f(t) == 0)))
    self.ctx.use_trusted('bytesum fold (sum of code points; code points <= 255 assumed for wire data)')
    return f(t)

  def b_adb_header(self, st, args, kwargs):
    """Spec function: the 24-byte ADB header of (command id, arg0, arg1, payload)."""
    cmd, a0, a1, data = args
    words = [cmd.t, a0.t, a1.t, z3.Length(data.t), self.bytesum(st, data.t) % 2**32, 2**32 - 1 - cmd.t]
    return [(st, VBytes(z3.Concat(*[self.le32(w) for w in words])))]

  def b_wire_command(self, st, args, kwargs):
    """Spec function: little-endian packing of a 4-letter command name (constant names only)."""
    a0 = args[0]
    if isinstance(a0, VVal):
      a0 = VStr(Val.s(a0.t))        # spec function on the string payload of the value
    args = [a0]
    name = z3.simplify(args[0].t)
    if z3.is_string_value(name):
      txt = name.as_string()
      return [(st, VInt(sum(ord(c) << (8 * i) for i, c in enumerate(txt))))]
    t = args[0].t
    b = [z3.StrToCode(z3.SubString(t, z3.IntVal(j), z3.IntVal(1))) for j in range(4)]
    return [(st, VInt(b[0] + 256 * b[1] + 65536 * b[2] + 16777216 * b[3]))]

  def b_le32_at(self, st, args, kwargs):
    """Spec function: k-th little-endian 32-bit word of a byte string."""
    raw, k = args[0], z3.simplify(vv.as_intlike(args[1])).as_long()
    if isinstance(raw, VVal):
      raw = VStr(Val.s(raw.t))
    b = [z3.StrToCode(z3.SubString(raw.t, z3.IntVal(4 * k + j), z3.IntVal(1))) for j in range(4)]
    for x in b:
      st.axiom(z3.Implies(z3.Length(raw.t) >= 4 * k + 4, z3.And(x >= 0, x <= 255)))
    return [(st, VInt(b[0] + 256 * b[1] + 65536 * b[2] + 16777216 * b[3]))]

  def concat_upto_fn(self, st, items):
    """cu(i) = encode(items[0]) ++ ... ++ encode(items[i-1]) as an uninterpreted function with its two defining facts."""
    f = z3.Function('concat_upto', z3.ArraySort(z3.IntSort(), Val), z3.IntSort(), z3.StringSort())
    enc = z3.Function('chunk_bytes', Val, z3.StringSort())
    i = z3.Int('cu_i')
    ax = z3.And(f(items, 0) == z3.StringVal(''),
                z3.ForAll([i], z3.Implies(i > 0, f(items, i) == z3.Concat(f(items, i - 1), enc(z3.Select(items, i - 1))))))
    if ax.get_id() not in st.ax:
      st.axiom(ax)
    return f, enc

  def b_concat_upto(self, st, args, kwargs):
    lst, i = args
    f, _ = self.concat_upto_fn(st, self.list_items(st, lst))
    return [(st, VStr(f(self.list_items(st, lst), vv.as_intlike(i))))]

  def b_chunk_bytes(self, st, args, kwargs):
    """Spec function: what is written for one chunk (chunk.encode() for str chunks, the chunk itself for bytes)."""
    enc = z3.Function('chunk_bytes', Val, z3.StringSort())
    f = z3.Function('str_encode', z3.StringSort(), z3.StringSort())
    t = self.to_val(st, args[0])
    st.axiom(z3.Implies(Val.is_VY(t), enc(t) == Val.y(t)))          # bytes are written as they are
    st.axiom(z3.Implies(Val.is_VS(t), enc(t) == f(Val.s(t))))       # str chunks are encoded
    return [(st, VStr(enc(t)))]

  def b_encoded(self, st, args, kwargs):
    """Spec function: the bytes of str.encode() as a string value (same uninterpreted function the code model uses)."""
    f = z3.Function('str_encode', z3.StringSort(), z3.StringSort())
    return [(st, VStr(f(args[0].t)))]

  def b_bytesum(self, st, args, kwargs):
    a0 = args[0]
    t = Val.s(a0.t) if isinstance(a0, VVal) else a0.t
    return [(st, VInt(self.bytesum(st, t)))]

  def b_list(self, st, args, kwargs):
    if not args:
      return [(st, self.new_list(st, []))]
    it = args[0]
    if isinstance(it, VGen_()):
      rs = self.gen_values(st, it)
      if rs is None:
        raise Unsupported('list() of symbolic generator')
      return [(s, v if isinstance(v, Raised) else self.new_list(s, v)) for s, v in rs]
    vals = self.concrete_iter(st, it)
    if vals is not None:
      return [(st, self.new_list(st, vals, elem=getattr(it, 'elem', None)))]
    if isinstance(it, VRef) and it.cls in ('list', 'tuple'):
      res = self.alloc(st, 'list', elem=it.elem)
      self.list_set(st, res, self.list_len(st, it), self.list_items(st, it))
      return [(st, res)]
    seq, el = self.iter_as_list(st, it)
    from pyvc.engine3 import VIterView
    keyview = isinstance(it, VIterView) and it.how == 'keys' and isinstance(it.base, VRef) and it.base.cls == 'dict'
    if (isinstance(it, VRef) and it.cls in ('dict', 'set')) or keyview:
      res = self.alloc(st, 'list')
      self.list_set(st, res, self.list_len(st, seq), self.list_items(st, seq))
      d = it.base if keyview else it
      # the list holds exactly the keys of d at this moment: membership in it is membership in that domain (as long as the
      # list is not mutated afterwards, which `contains` checks syntactically)
      st.pyheap[(self.oid_of(res), '$keys_of')] = (self.dict_dom(st, d), getattr(d, 'keykind', None), self.list_len(st, res), self.list_items(st, res))
      return [(st, res)]
    raise Unsupported('list() of %r' % (it,))

  def b_tuple(self, st, args, kwargs):
    if not args:
      return [(st, VTuple([]))]
    it = args[0]
    if isinstance(it, VGen_()):
      rs = self.gen_values(st, it)
      if rs is None:
        raise Unsupported('tuple() of symbolic generator')
      return [(s, v if isinstance(v, Raised) else VTuple(v)) for s, v in rs]
    vals = self.concrete_iter(st, it)
    if vals is not None:
      return [(st, VTuple(vals))]
    if isinstance(it, VRef) and it.cls in ('list', 'tuple'):
      res = self.alloc(st, 'tuple', elem=it.elem)
      self.list_set(st, res, self.list_len(st, it), self.list_items(st, it))
      return [(st, res)]
    raise Unsupported('tuple() of %r' % (it,))

  def b_dict(self, st, args, kwargs):
    if not args:
      return [(st, self.new_dict(st, [(VStr(k), v) for k, v in kwargs.items()]))]
    src = args[0]
    if isinstance(src, VRef) and src.cls == 'dict':
      d = self.alloc(st, 'dict', elem=src.elem)
      keys = self.dict_keys(st, src)
      kcopy = self.alloc(st, 'list')
      self.list_set(st, kcopy, self.list_len(st, keys), self.list_items(st, keys))
      self.dict_set_raw(st, d, self.dict_dom(st, src), self.dict_val(st, src), kcopy.t)
      for k, v in kwargs.items():
        self.dict_store(st, d, VStr(k), v)
      return [(st, d)]
    if isinstance(src, VPyDict_()):
      return [(st, self.new_dict(st, [(VStr(k), v) for k, v in src.d.items()]))]
    if isinstance(src, VGen_()):
      rs = self.gen_values(st, src)
      if rs is None:
        raise Unsupported('dict() of symbolic generator')
      out = []
      for s, vals in rs:
        if isinstance(vals, Raised):
          out.append((s, vals))
        else:
          out.append((s, self.new_dict(s, [tuple(self.unpack(s, v, 2, None)) for v in vals])))
      return out
    vals = self.concrete_iter(st, src)
    if vals is not None:
      return [(st, self.new_dict(st, [tuple(self.unpack(st, v, 2, None)) for v in vals]))]
    raise Unsupported('dict() of %r' % (src,))

  def b_set(self, st, args, kwargs):
    if not args:
      return [(st, self.new_dict(st, [], cls='set'))]
    vals = self.concrete_iter(st, args[0])
    if vals is None:
      raise Unsupported('set() of symbolic iterable')
    return [(st, self.new_dict(st, [(v, VBool(True)) for v in vals], cls='set'))]

  def b_enumerate(self, st, args, kwargs):
    from pyvc.engine3 import VIterView
    start = args[1] if len(args) > 1 else kwargs.get('start')
    return [(st, VIterView('enumerate', args[0], start))]

  def b_zip(self, st, args, kwargs):
    from pyvc.engine3 import VIterView
    return [(st, VIterView('zip', list(args)))]

  def b_reversed(self, st, args, kwargs):
    from pyvc.engine3 import VIterView
    return [(st, VIterView('reversed', args[0]))]

  def b_sorted(self, st, args, kwargs):
    vals = self.concrete_iter(st, args[0])
    if vals is not None and len(vals) <= 1:
      return [(st, self.new_list(st, vals))]
    raise Unsupported('sorted()')

  def b_range(self, st, args, kwargs):
    ts = [z3.simplify(vv.as_intlike(a)) for a in args]
    if all(z3.is_int_value(t) for t in ts):
      r = range(*[t.as_long() for t in ts])
      if len(r) <= 64:
        return [(st, VTuple([VInt(i) for i in r]))]
    if len(ts) <= 2:
      # symbolic / long range with step 1: an integer sequence kept symbolic (length term, element function)
      from pyvc.engine3 import VIterView
      lo, hi = (z3.IntVal(0), ts[0]) if len(ts) == 1 else ts
      return [(st, VIterView('intseq', None, (z3.If(hi > lo, hi - lo, z3.IntVal(0)), lambda i, lo=lo: lo + i)))]
    raise Unsupported('range with a step and symbolic / large bounds')

  def b_repr(self, st, args, kwargs):
    return [(st, VStr(fresh('repr', z3.StringSort())))]

  def b_id(self, st, args, kwargs):
    v = args[0]
    if isinstance(v, VRef):
      return [(st, VInt(v.t))]
    raise Unsupported('id()')

  def b_print(self, st, args, kwargs):
    return [(st, NONE)]

  def b_iter(self, st, args, kwargs):
    return [(st, args[0])]

  def b_ord(self, st, args, kwargs):
    return [(st, VInt(z3.StrToCode(args[0].t)))]

  def b_chr(self, st, args, kwargs):
    return [(st, VStr(z3.StrFromCode(vv.as_intlike(args[0]))))]

  def b_format(self, st, args, kwargs):
    return [(st, VStr(fresh('fmt', z3.StringSort())))]

  def b_isnan(self, st, args, kwargs):
    """Spec function (total): True exactly for a float NaN."""
    v = args[0]
    views = self.views(st, v) if isinstance(v, VVal) else None
    if views is not None:
      return [(st, VBool(z3.Or(*[z3.And(c, vv.f_isnan(tv.t)) for c, tv in views if isinstance(tv, VFloat)] + [z3.BoolVal(False)])))]
    out = []
    for s, r in self.resolve(st, v):
      out.append((s, VBool(vv.f_isnan(r.t)) if isinstance(r, VFloat) else VBool(False)))
    return out

  def b_isnum(self, st, args, kwargs):
    return self.b_isinstance(st, [args[0], VClass('numbers.Number')], {})

  def b_same(self, st, args, kwargs):
    return [(st, VBool(self.to_val(st, args[0]) == self.to_val(st, args[1])))]

  def b_isfinite(self, st, args, kwargs):
    v = args[0]
    out = []
    for s, r in self.resolve(st, v):
      out.append((s, VBool(vv.fp_is_finite(r.t)) if isinstance(r, VFloat) else VBool(True)))
    return out

  def b_exact_class(self, st, args, kwargs):
    obj, cls = args
    if not isinstance(obj, VRef) or not isinstance(cls, VClass):
      return [(st, VBool(False))]
    if isinstance(obj.cls, ClassInfo) and obj.exact:
      return [(st, VBool(obj.cls is cls.cls))]
    return [(st, VBool(z3.And(obj.t != 0, st.classof(obj.t) == cls.cls.uid)))]

  def b_next(self, st, args, kwargs):
    it = args[0]
    if isinstance(it, VRef) and isinstance(it.cls, str) and it.cls.startswith('gen:'):
      return self.co_resume(st, it, None)
    raise Unsupported('next() on %r' % (it,))

  def b_raises_on(self, st, args, kwargs):
    """spec: the opaque callable args[0] raises when called with args[1:] (its fixed, unknown raise predicate)."""
    fn = args[0]
    if isinstance(fn, VVal):
      fn = VCallable(Val.c(fn.t), label=kwargs['label'].t.as_string() if 'label' in kwargs else 'fn')
    f = z3.Function('op_raises_' + fn.label, *([z3.IntSort()] + [Val] * (len(args) - 1) + [z3.BoolSort()]))
    return [(st, VBool(f(fn.t, *[self.to_val(st, a) for a in args[1:]])))]

  def b_callable_id(self, st, args, kwargs):
    """spec: the identity of an opaque callable (an integer)."""
    v = args[0]
    if isinstance(v, VCallable):
      return [(st, VInt(v.t))]
    return [(st, VInt(Val.c(self.to_val(st, v))))]

  def b_ref_id(self, st, args, kwargs):
    """spec: the identity of an object (an integer; 0 for None)."""
    v = args[0]
    if isinstance(v, VRef):
      return [(st, VInt(v.t))]
    if isinstance(v, VNone):
      return [(st, VInt(z3.IntVal(0)))]
    raise Unsupported('ref_id of %r' % (v,))

  def b_class_named(self, st, args, kwargs):
    """spec: the class object with this (unqualified or dotted-suffix) name, independent of the enclosing module's imports."""
    name = z3.simplify(args[0].t).as_string()
    return [(st, VClass(self.ctx.registry.class_named(name)))]

  def b_content(self, st, args, kwargs):
    from pyvc.values import VSnap
    d = args[0]
    if isinstance(d, VRef) and d.cls in ('dict', 'set'):
      return [(st, VSnap('dict', self.dict_dom(st, d), self.dict_val(st, d), d.elem))]
    if isinstance(d, VRef) and d.cls in ('list', 'tuple'):
      return [(st, VSnap('list', self.list_len(st, d), self.list_items(st, d), d.elem))]
    raise Unsupported('content() of %r' % (d,))

  def b_forall_str(self, st, args, kwargs):
    return self._quant_lambda(st, args[0], True, z3.StringSort())

  def b_forall_key(self, st, args, kwargs):
    """Quantifier over every possible dict key (the universal value sort)."""
    return self._quant_lambda(st, args[0], True, Val)

  def b_exists_str(self, st, args, kwargs):
    return self._quant_lambda(st, args[0], False, z3.StringSort())

  def b_keypos(self, st, args, kwargs):
    d, k = args
    pos = self.keypos_fn(st, d)
    return [(st, VInt(pos(self.to_val(st, k))))]

  def b_ghost(self, st, args, kwargs):
    name = z3.simplify(args[0].t).as_string()
    if name not in st.ghost:
      from pyvc.values import GhostUnset
      raise GhostUnset('ghost variable %s is not set on this path' % name)
    return [(st, st.ghost[name])]

  def b_alive(self, st, args, kwargs):
    return [(st, self.read_field(st, VRef('threading.Thread', args[0].t), 'alive'))]

  def b_cast(self, st, args, kwargs):
    obj, cls = args
    if isinstance(obj, VVal):
      return [(st, VRef(cls.cls, Val.r(obj.t)))]
    return [(st, VRef(cls.cls, obj.t, nullable=obj.nullable, exact=obj.exact, elem=obj.elem))]

  def b_pattern_of(self, st, args, kwargs):
    return [(st, VStr(z3.Function('re_pattern', z3.IntSort(), z3.StringSort())(args[0].t)))]

  def b_re_match(self, st, args, kwargs):
    return [(st, VBool(z3.Function('re_match', z3.StringSort(), z3.StringSort(), z3.BoolSort())(args[0].t, args[1].t)))]

  # --- spec helpers (also harmless in code: these names do not occur in /repo)
  def b_implies(self, st, args, kwargs):
    out = []
    for s, a in self.truth(st, args[0]):
      for s2, b in self.truth(s, args[1]):
        out.append((s2, VBool(z3.Implies(a, b))))
    return out

  def b_is_fresh(self, st, args, kwargs):
    """is_fresh(x): x was allocated during this activation (possibly by a callee).

    When a callee's postcondition is *assumed*, its fresh objects live in a region of their own (one per call), so they
    are distinct from everything the caller allocated or obtained from other calls."""
    v = args[0]
    if isinstance(v, VVal):
      # a value of unknown type: fresh means "a reference to a fresh object" (as a dict when it may be one)
      v = VRef('dict', Val.r(v.t))
    region = getattr(self, 'fresh_region', None)
    if region is not None:
      c = z3.And(v.t >= region, v.t < region + 100000)
      if isinstance(v, VRef) and v.cls in ('dict', 'set'):
        # a fresh dict comes with its own fresh (hidden) key list
        kl = self.dict_keys(st, v).t
        c = z3.And(c, kl >= region, kl < region + 100000, kl != v.t,
                   z3.Function('keylist_owner', z3.IntSort(), z3.IntSort())(kl) == v.t,
                   z3.Function('container_tag', z3.IntSort(), z3.IntSort())(kl) == -1)
      return [(st, VBool(c))]
    return [(st, VBool(v.t >= ALLOC_BASE))]

  def b_iff(self, st, args, kwargs):
    out = []
    for s, a in self.truth(st, args[0]):
      for s2, b in self.truth(s, args[1]):
        out.append((s2, VBool(a == b)))
    return out

  def b_forall_int(self, st, args, kwargs):
    """forall_int(lambda i: P(i))"""
    return self._quant_lambda(st, args[0], True)

  def b_exists_int(self, st, args, kwargs):
    return self._quant_lambda(st, args[0], False)

  def _quant_lambda(self, st, fn, universal, sort=None):
    sort = z3.IntSort() if sort is None else sort
    params = [p.arg for p in fn.finfo.node.args.args]
    bound = [fresh('q_' + p, sort) for p in params]
    s = st.fork()
    env = dict(fn.closure or st.env)
    for p, b in zip(params, bound):
      env[p] = VInt(b) if sort == z3.IntSort() else (VStr(b) if sort == z3.StringSort() else VVal(b))
    s.env = env
    base = len(s.pc)
    body = self.eval_merged_bool(s, fn.finfo.node.body)
    # axioms discovered while evaluating the body that do not mention the bound variables hold outside as well
    names = [str(b) for b in bound]
    for c in s.pc[base:]:
      if c.get_id() in s.ax and c.get_id() not in st.ax:
        txt = c.sexpr()
        if not any(n in txt for n in names):
          st.axiom(c)
    self.lift_ghost(st, s)
    return [(st, VBool(z3.ForAll(bound, body) if universal else z3.Exists(bound, body)))]

  # ------------------------------------------------------------------ constructors of builtin types
  def builtin_construct(self, st, name, pos, kwargs):
    if name in BUILTIN_EXC or name.startswith('exc:'):
      exc = self.alloc(st, 'exc:' + name.split(':')[-1])
      st.pyheap[(self.oid_of(exc), 'args')] = VTuple(pos)
      return [(st, exc)]
    if name == 'list':
      return self.b_list(st, pos, kwargs)
    if name == 'tuple':
      return self.b_tuple(st, pos, kwargs)
    if name == 'dict':
      return self.b_dict(st, pos, kwargs)
    if name in ('set', 'frozenset'):
      return self.b_set(st, pos, kwargs)
    if name == 'object':
      return [(st, self.alloc(st, 'object'))]
    if name == 'type' and len(pos) == 1:
      return self.b_type(st, pos, kwargs)
    if not pos:
      return [(st, {'int': VInt(0), 'float': VFloat(0.0), 'str': VStr(''), 'bool': VBool(False), 'bytes': VBytes(b'')}[name])]
    out = []
    for s, v in self.resolve(st, pos[0]):
      out.extend(self.convert(s, name, v))
    return out

  def convert(self, st, name, v):
    if name == 'bool':
      return [(s, VBool(b)) for s, b in self.truth(st, v)]
    if name == 'str':
      if isinstance(v, VBytes):
        return [(st, VStr(fresh('strbytes', z3.StringSort())))]
      return self.to_str(st, v)
    if name == 'int':
      i = vv.as_intlike(v)
      if i is not None:
        return [(st, VInt(i))]
      if isinstance(v, VFloat):
        self.safety(st, vv.fp_is_finite(v.t), 'overflow', 'cannot convert float NaN/inf to int')
        r = vv.Flt.re(v.t)
        fl = z3.ToInt(r)
        # truncation toward zero
        return [(st, VInt(z3.If(r >= 0, fl, z3.If(z3.ToReal(fl) == r, fl, fl + 1))))]
      if isinstance(v, VStr):
        f = z3.Function('int_of_str', z3.StringSort(), z3.IntSort())
        okf = z3.Function('int_parsable', z3.StringSort(), z3.BoolSort())
        out = []
        for s, ok in self.branch(st, okf(v.t)):
          out.append((s, VInt(f(v.t)) if ok else self.raise_builtin(s, 'ValueError', 'invalid literal for int()')))
        return out
      return [(st, self.raise_builtin(st, 'TypeError', 'int() argument'))]
    if name == 'float':
      if isinstance(v, VFloat):
        return [(st, v)]
      i = vv.as_intlike(v)
      if i is not None:
        if isinstance(v, VBool):
          return [(st, VFloat(z3.If(v.t, vv.flt_const(1.0), vv.flt_const(0.0))))]
        out = []
        lim = vv.INT_FLOAT_LIMIT
        if 'OverflowError' in self.implicit_opt_in():
          for s, ok in self.branch(st, z3.And(i < lim, i > -lim)):
            if ok:
              for f in vv.int_to_fp_facts(i):
                s.axiom(f)
            out.append((s, VFloat(vv.int_to_fp(i)) if ok else self.raise_builtin(s, 'OverflowError', 'int too large')))
          return out
        return [(st, VFloat(self.to_float(st, v)))]
      if isinstance(v, VStr):
        f = z3.Function('float_of_str', z3.StringSort(), F64)
        okf = z3.Function('float_parsable', z3.StringSort(), z3.BoolSort())
        out = []
        for s, ok in self.branch(st, okf(v.t)):
          out.append((s, VFloat(f(v.t)) if ok else self.raise_builtin(s, 'ValueError', 'could not convert string to float')))
        return out
      return [(st, self.raise_builtin(st, 'TypeError', 'float() argument'))]
    if name == 'bytes':
      if isinstance(v, VBytes):
        return [(st, v)]
      raise Unsupported('bytes() conversion')
    raise Unsupported('conversion to %s' % name)

  # ------------------------------------------------------------------ methods of builtin values
  def builtin_method(self, st, v, name):
    impl = None
    if isinstance(v, (VStr, VBytes)):
      impl = getattr(self, 'm_str_' + name, None)
    elif isinstance(v, VRef) and v.cls in ('list', 'tuple'):
      impl = getattr(self, 'm_list_' + name, None)
    elif isinstance(v, VRef) and v.cls in ('dict', 'set'):
      impl = getattr(self, 'm_dict_' + name, None)
    elif isinstance(v, VPyDict_()):
      impl = getattr(self, 'm_pydict_' + name, None)
    elif isinstance(v, VTuple):
      impl = getattr(self, 'm_tuple_' + name, None)
    elif isinstance(v, (VFunc, VCallable, VBuiltin)):
      if name in ('__name__', '__qualname__'):
        if isinstance(v, VFunc):
          return VStr(v.finfo.name)
        return VStr(z3.Function('name_of', z3.IntSort(), z3.StringSort())(v.t)) if isinstance(v, VCallable) else VStr(v.name)
    elif isinstance(v, VFloat) and name == 'is_integer':
      return VBuiltin('float.is_integer', lambda ex, s, a, k: [(s, VBool(z3.And(vv.Flt.is_FIN(a[0].t), z3.IsInt(vv.Flt.re(a[0].t)))))], bound=v)
    if impl is None:
      return None
    return VBuiltin('%s.%s' % (type(v).__name__, name), lambda ex, s, a, k, _i=impl: _i(s, a, k), bound=v)

  # --- str / bytes
  def m_str_format(self, st, args, kwargs):
    fmt = z3.simplify(args[0].t)
    if z3.is_string_value(fmt):
      text = fmt.as_string()
      import re
      fields = re.findall(r'\{([^{}]*)\}', text.replace('{{', '').replace('}}', ''))
      auto = [f for f in fields if f == '' or f.startswith(':') or f.startswith('!')]
      if len(auto) > len(args) - 1:
        self.safety(st, z3.BoolVal(False), 'format_arity', 'str.format: %r needs %d positional args' % (text, len(auto)))
      if all(f == '' for f in fields) and len(fields) == len(args) - 1 and '{{' not in text and '}}' not in text:
        pieces = text.split('{}')
        res = z3.StringVal(pieces[0])
        ok = True
        for p, a in zip(pieces[1:], args[1:]):
          rs = self.to_str(st, a)
          if len(rs) != 1 or isinstance(rs[0][1], Raised):
            ok = False
            break
          res = z3.Concat(res, rs[0][1].t, z3.StringVal(p))
        if ok:
          return [(st, VStr(z3.simplify(res)))]
    return [(st, VStr(fresh('fmt', z3.StringSort())))]

  def m_str_startswith(self, st, args, kwargs):
    return [(st, VBool(z3.PrefixOf(args[1].t, args[0].t)))]

  def m_str_endswith(self, st, args, kwargs):
    return [(st, VBool(z3.SuffixOf(args[1].t, args[0].t)))]

  def m_str_islower(self, st, args, kwargs):
    s0 = args[0].t
    z = z3.simplify(s0)
    if z3.is_string_value(z):
      return [(st, VBool(z.as_string().islower()))]
    if 'ascii_islower' in self.ctx.opts:
      pass
    c = z3.StrToCode(z3.SubString(s0, 0, 1))
    one = z3.Length(s0) == 1
    # exact for single ASCII characters; longer / non-ASCII strings use an uninterpreted predicate
    f = z3.Function('str_islower', z3.StringSort(), z3.BoolSort())
    st.assume(z3.Implies(one, f(s0) == z3.If(c < 128, z3.And(c >= 97, c <= 122), f(s0))))
    return [(st, VBool(f(s0)))]

  def m_str_decode(self, st, args, kwargs):
    f = z3.Function('bytes_decode', z3.StringSort(), z3.StringSort())
    return [(st, VStr(f(args[0].t)))]

  def m_str_encode(self, st, args, kwargs):
    f = z3.Function('str_encode', z3.StringSort(), z3.StringSort())
    enc = z3.Function('chunk_bytes', Val, z3.StringSort())
    st.axiom(enc(Val.VS(args[0].t)) == f(args[0].t))       # chunk_bytes of a str chunk is its encoding
    return [(st, VBytes(f(args[0].t)))]

  def m_str_strip(self, st, args, kwargs):
    f = z3.Function('str_strip', z3.StringSort(), z3.StringSort())
    return [(st, type(args[0])(f(args[0].t)))]

  def m_str_lower(self, st, args, kwargs):
    f = z3.Function('str_lower', z3.StringSort(), z3.StringSort())
    return [(st, type(args[0])(f(args[0].t)))]

  def m_str_upper(self, st, args, kwargs):
    f = z3.Function('str_upper', z3.StringSort(), z3.StringSort())
    return [(st, type(args[0])(f(args[0].t)))]

  def m_str_join(self, st, args, kwargs):
    sep, it = args
    vals = None
    if isinstance(it, VGen_()):
      rs = self.gen_values(st, it)
      if rs is not None and len(rs) == 1 and not isinstance(rs[0][1], Raised):
        vals = rs[0][1]
    else:
      vals = self.concrete_iter(st, it)
    if vals is None or not all(isinstance(x, (VStr, VBytes)) for x in vals):
      return [(st, type(sep)(fresh('join', z3.StringSort())))]
    res = z3.StringVal('')
    for n, x in enumerate(vals):
      res = z3.Concat(res, sep.t, x.t) if n else x.t
    return [(st, type(sep)(z3.simplify(res) if vals else z3.StringVal('')))]

  def m_str_split(self, st, args, kwargs):
    s0 = args[0]
    if len(args) >= 3:
      sep, maxsplit = args[1], z3.simplify(vv.as_intlike(args[2]))
      if z3.is_int_value(maxsplit) and maxsplit.as_long() == 1:
        idx = z3.IndexOf(s0.t, sep.t, 0)
        out = []
        for s, found in self.branch(st, idx >= 0):
          if found:
            a = z3.SubString(s0.t, 0, idx)
            b = z3.SubString(s0.t, idx + z3.Length(sep.t), z3.Length(s0.t))
            out.append((s, self.new_list(s, [type(s0)(a), type(s0)(b)])))
          else:
            out.append((s, self.new_list(s, [s0])))
        return out
      if z3.is_int_value(maxsplit) and 1 < maxsplit.as_long() <= 4 and isinstance(sep, (VStr, VBytes)):
        # s.split(sep, m) for a small constant m: k = 1 .. m+1 parts p_i with s == p_0 sep p_1 ... and no separator inside any
        # part but (when all m splits happened) the last
        m = maxsplit.as_long()
        out = []
        for k in range(1, m + 2):
          sk = st.fork()
          parts = [fresh('part', z3.StringSort()) for _ in range(k)]
          joined = parts[0]
          for p_ in parts[1:]:
            joined = z3.Concat(joined, sep.t, p_)
          sk.assume(s0.t == joined)
          for i_, p_ in enumerate(parts):
            if i_ < k - 1 or k < m + 1:
              sk.assume(z3.Not(z3.Contains(p_, sep.t)))
          sk.assume(z3.Length(sep.t) > 0)
          if self.feasible(sk):
            out.append((sk, self.new_list(sk, [type(s0)(p_) for p_ in parts])))
        return out
    raise Unsupported('str.split in general form')

  def m_str_replace(self, st, args, kwargs):
    return [(st, type(args[0])(z3.Replace(args[0].t, args[1].t, args[2].t)))] if False else \
        [(st, type(args[0])(z3.Function('str_replace_all', z3.StringSort(), z3.StringSort(), z3.StringSort(), z3.StringSort())(args[0].t, args[1].t, args[2].t)))]

  def m_str_find(self, st, args, kwargs):
    return [(st, VInt(z3.IndexOf(args[0].t, args[1].t, 0)))]

  def m_str_isdigit(self, st, args, kwargs):
    return [(st, VBool(z3.Function('str_isdigit', z3.StringSort(), z3.BoolSort())(args[0].t)))]

  # --- list
  def m_list_append(self, st, args, kwargs):
    self.list_append(st, args[0], args[1])
    return [(st, NONE)]

  def m_list_extend(self, st, args, kwargs):
    vals = self.concrete_iter(st, args[1])
    if vals is None:
      raise Unsupported('list.extend with symbolic iterable')
    for v in vals:
      self.list_append(st, args[0], v)
    return [(st, NONE)]

  def m_list_pop(self, st, args, kwargs):
    lst = args[0]
    n = self.list_len(st, lst)
    if len(args) == 1:
      self.safety(st, n > 0, 'index', 'pop from empty list')
      v = self.list_get(st, lst, n - 1)
      self.list_set(st, lst, n - 1)
      return [(st, v)]
    i = z3.simplify(vv.as_intlike(args[1]))
    if z3.is_int_value(i) and i.as_long() == 0:
      self.safety(st, n > 0, 'index', 'pop from empty list')
      v = self.list_get(st, lst, z3.IntVal(0))
      items = fresh('pop0', z3.ArraySort(z3.IntSort(), Val))
      j = fresh('pj', z3.IntSort())
      src = self.list_items(st, lst)
      st.assume(z3.ForAll([j], z3.Implies(z3.And(j >= 0, j < n - 1), z3.Select(items, j) == z3.Select(src, j + 1))))
      self.list_set(st, lst, n - 1, items)
      return [(st, v)]
    raise Unsupported('list.pop(i)')

  def m_list_index(self, st, args, kwargs):
    raise Unsupported('list.index')

  def m_list_copy(self, st, args, kwargs):
    return self.b_list(st, [args[0]], {})

  def m_list_count(self, st, args, kwargs):
    raise Unsupported('list.count')

  # --- dict / set
  def m_dict_get(self, st, args, kwargs):
    d, k = args[0], args[1]
    default = args[2] if len(args) > 2 else NONE
    out = []
    for s, has in self.branch(st, self.dict_has(st, d, k)):
      out.append((s, self.dict_load(s, d, k) if has else default))
    return out

  def m_dict_items(self, st, args, kwargs):
    from pyvc.engine3 import VIterView
    return [(st, VIterView('items', args[0]))]

  def m_dict_values(self, st, args, kwargs):
    from pyvc.engine3 import VIterView
    return [(st, VIterView('values', args[0]))]

  def m_dict_keys(self, st, args, kwargs):
    from pyvc.engine3 import VIterView
    return [(st, VIterView('keys', args[0]))]

  def m_dict_setdefault(self, st, args, kwargs):
    d, k, v = args
    out = []
    for s, has in self.branch(st, self.dict_has(st, d, k)):
      if not has:
        self.dict_store(s, d, k, v)
      out.append((s, self.dict_load(s, d, k)))
    return out

  def m_dict_add(self, st, args, kwargs):
    self.dict_store(st, args[0], args[1], VBool(True))
    return [(st, NONE)]

  def m_dict_clear(self, st, args, kwargs):
    d = args[0]
    keys = self.new_list(st, [])
    self.dict_set_raw(st, d, z3.K(Val, z3.BoolVal(False)), None, keys.t)
    return [(st, NONE)]

  def m_dict_update(self, st, args, kwargs):
    d = args[0]
    if len(args) > 1:
      src = args[1]
      if isinstance(src, VPyDict_()):
        for k, v in src.d.items():
          self.dict_store(st, d, VStr(k), v)
      else:
        keys = self.list_values(st, self.dict_keys(st, src)) if isinstance(src, VRef) and src.cls == 'dict' else None
        if keys is not None:
          for k in keys:
            self.dict_store(st, d, k, self.dict_load(st, src, k))
        elif isinstance(src, VRef) and src.cls == 'dict':
          self.dict_update_symbolic(st, d, src)
        else:
          raise Unsupported('dict.update from %r' % (src,))
    for k, v in kwargs.items():
      self.dict_store(st, d, VStr(k), v)
    return [(st, NONE)]

  def dict_update_symbolic(self, st, d, src):
    """d.update(src) for a symbolic src: pointwise definition of domain and values (key order left unspecified)."""
    k = z3.Const('upd_k', Val)
    ndom = fresh('upd_dom', z3.ArraySort(Val, z3.BoolSort()))
    nval = fresh('upd_val', z3.ArraySort(Val, Val))
    sd, sv = self.dict_dom(st, src), self.dict_val(st, src)
    dd, dv = self.dict_dom(st, d), self.dict_val(st, d)
    st.assume(z3.ForAll([k], z3.Select(ndom, k) == z3.Or(z3.Select(dd, k), z3.Select(sd, k))))
    st.assume(z3.ForAll([k], z3.Select(nval, k) == z3.If(z3.Select(sd, k), z3.Select(sv, k), z3.Select(dv, k))))
    nk = self.alloc(st, 'list')
    self.list_set(st, nk, fresh('upd_n', z3.IntSort()), fresh('upd_keys', z3.ArraySort(z3.IntSort(), Val)))
    self.dict_set_raw(st, d, ndom, nval, nk.t)

  def m_dict_pop(self, st, args, kwargs):
    d, k = args[0], args[1]
    out = []
    for s, has in self.branch(st, self.dict_has(st, d, k)):
      if has:
        v = self.dict_load(s, d, k)
        self.dict_delete(s, d, k)
        out.append((s, v))
      elif len(args) > 2:
        out.append((s, args[2]))
      else:
        out.append((s, self.implicit_raise(s, 'KeyError', 'pop', None)))
    return out

  def m_dict_copy(self, st, args, kwargs):
    return self.b_dict(st, [args[0]], {})

  def dict_delete(self, st, d, k):
    kt = self.to_val(st, k)
    self.dict_set_raw(st, d, z3.Store(self.dict_dom(st, d), kt, z3.BoolVal(False)))
    keys = self.dict_keys(st, d)
    vals = self.list_values(st, keys)
    if vals is not None:
      # concrete key list: rebuild without k when syntactically identifiable, else leave order unspecified
      pass
    nk = self.alloc(st, 'list')
    self.list_set(st, nk, fresh('del_n', z3.IntSort()), fresh('del_keys', z3.ArraySort(z3.IntSort(), Val)))
    self.dict_set_raw(st, d, None, None, nk.t)

  # --- python-side dict (kwargs)
  def m_pydict_items(self, st, args, kwargs):
    from pyvc.engine3 import VIterView
    return [(st, VIterView('items', args[0]))]

  def m_pydict_keys(self, st, args, kwargs):
    from pyvc.engine3 import VIterView
    return [(st, VIterView('keys', args[0]))]

  def m_pydict_values(self, st, args, kwargs):
    from pyvc.engine3 import VIterView
    return [(st, VIterView('values', args[0]))]

  def m_pydict_get(self, st, args, kwargs):
    d, k = args[0], z3.simplify(args[1].t)
    if z3.is_string_value(k):
      return [(st, d.d.get(k.as_string(), args[2] if len(args) > 2 else NONE))]
    raise Unsupported('kwargs.get with symbolic key')

  def m_pydict_pop(self, st, args, kwargs):
    d, k = args[0], z3.simplify(args[1].t)
    if z3.is_string_value(k):
      if k.as_string() in d.d:
        return [(st, d.d.pop(k.as_string()))]
      if len(args) > 2:
        return [(st, args[2])]
    raise Unsupported('kwargs.pop')

  def m_tuple_index(self, st, args, kwargs):
    raise Unsupported('tuple.index')

  # ------------------------------------------------------------------ stdlib (trusted)
  def x_math_isnan(self, st, args, kwargs):
    v = args[0]
    views = self.views(st, v) if isinstance(v, VVal) else None
    if views is None:
      views_list = [(s, [(z3.BoolVal(True), tv)]) for s, tv in self.resolve(st, v)]
    else:
      views_list = [(st, views)]
    out = []
    lim = vv.INT_FLOAT_LIMIT
    for s, vs in views_list:
      errs, oks, ovf = [], [], []
      for c, tv in vs:
        if isinstance(tv, VFloat):
          oks.append(z3.And(c, vv.f_isnan(tv.t)))
        elif isinstance(tv, VBool):
          pass
        elif isinstance(tv, VInt):
          ovf.append(z3.And(c, z3.Not(z3.And(tv.t < lim, tv.t > -lim))))
        else:
          errs.append(c)
      err = z3.simplify(z3.Or(*errs)) if errs else z3.BoolVal(False)
      for s2, e in self.branch(s, err):
        if e:
          out.append((s2, self.raise_builtin(s2, 'TypeError', 'must be real number')))
          continue
        over = z3.simplify(z3.Or(*ovf)) if ovf else z3.BoolVal(False)
        if 'OverflowError' in self.implicit_opt_in():
          for s3, o in self.branch(s2, over):
            if o:
              out.append((s3, self.raise_builtin(s3, 'OverflowError', 'int too large to convert to float')))
            else:
              out.append((s3, VBool(z3.Or(*oks) if oks else z3.BoolVal(False))))
        else:
          self.safety(s2, z3.Not(over), 'overflow', 'math.isnan: int too large to convert to float')
          out.append((s2, VBool(z3.Or(*oks) if oks else z3.BoolVal(False))))
    return out

  def x_math_isinf(self, st, args, kwargs):
    out = []
    for s, v in self.resolve(st, args[0]):
      if isinstance(v, VFloat):
        out.append((s, VBool(vv.f_isinf(v.t))))
      elif vv.as_intlike(v) is not None:
        out.append((s, VBool(False)))
      else:
        out.append((s, self.raise_builtin(s, 'TypeError', 'must be real number')))
    return out

  def x_sys_exc_info(self, st, args, kwargs):
    if not st.exc_stack:
      return [(st, VTuple([NONE, NONE, NONE]))]
    exc = st.exc_stack[-1]
    return [(st, VTuple([VClass(self.exc_class_of(exc)), exc, self.alloc(st, 'object')]))]

  def x_traceback_format_exc(self, st, args, kwargs):
    return [(st, VStr(fresh('tb', z3.StringSort())))]

  def x_traceback_format_exception(self, st, args, kwargs):
    return [(st, VTuple([VStr(fresh('tb', z3.StringSort()))]))]

  def x_logging_getLogger(self, st, args, kwargs):
    return [(st, VRef('logger', 2))]

  def x_functools_partial(self, st, args, kwargs):
    fn = args[0]
    pre, prek = list(args[1:]), dict(kwargs)
    def impl(ex, s, a, k):
      kk = dict(prek)
      kk.update(k)
      return ex.call(s, fn, pre + list(a), kk)
    return [(st, VBuiltin('partial', impl))]

  def x_functools_wraps(self, st, args, kwargs):
    return [(st, VBuiltin('wraps', lambda ex, s, a, k: [(s, a[0])]))]

  def x_time_time(self, st, args, kwargs):
    self.ctx.use_trusted('time.time')
    return [(st, VFloat(fresh('time', F64)))]

  def x_time_monotonic(self, st, args, kwargs):
    self.ctx.use_trusted('time.monotonic')
    return [(st, VFloat(fresh('mono', F64)))]

  def x_time_sleep(self, st, args, kwargs):
    self.ctx.use_trusted('time.sleep')
    return [(st, NONE)]

  def x_copy_copy(self, st, args, kwargs):
    return self.shallow_copy(st, args[0])

  def shallow_copy(self, st, v):
    if isinstance(v, VRef) and v.cls == 'list':
      return self.b_list(st, [v], {})
    if isinstance(v, VRef) and v.cls == 'dict':
      return self.b_dict(st, [v], {})
    if isinstance(v, (VInt, VBool, VFloat, VStr, VBytes, VNone, VEnum, VTuple)):
      return [(st, v)]
    raise Unsupported('copy.copy of %r' % (v,))

  def x_re_escape(self, st, args, kwargs):
    self.ctx.use_trusted('re.escape')
    out = []
    for s, v in self.resolve(st, args[0]):
      if isinstance(v, VStr):
        out.append((s, VStr(z3.Function('re_escape', z3.StringSort(), z3.StringSort())(v.t))))
      else:
        out.append((s, self.raise_builtin(s, 'TypeError', 'expected string')))
    return out

  def x_re_compile(self, st, args, kwargs):
    self.ctx.use_trusted('re.compile')
    rx = self.alloc(st, 'regex')
    st.pyheap[(self.oid_of(rx), 'pattern')] = args[0]
    st.assume(z3.Function('re_pattern', z3.IntSort(), z3.StringSort())(rx.t) == args[0].t)
    return [(st, rx)]

  def x_yaml_safe_load(self, st, args, kwargs):
    """Trusted: parsing is a deterministic partial function of the text; the result is a (pre-existing) dict with
    str keys, or a non-dict value, or yaml.YAMLError."""
    self.ctx.use_trusted('yaml.safe_load')
    out = []
    for s, v in self.resolve(st, args[0]):
      if not isinstance(v, VStr):
        raise Unsupported('yaml.safe_load of %r' % (v,))
      kind = z3.Function('yaml_kind', z3.StringSort(), z3.IntSort())(v.t)
      ref = z3.Function('yaml_dict', z3.StringSort(), z3.IntSort())(v.t)
      other = z3.Function('yaml_value', z3.StringSort(), Val)(v.t)
      for n in (0, 1, 2):
        s2 = s.fork() if n < 2 else s
        s2.assume(kind == n)
        if not self.feasible(s2):
          continue
        if n == 0:
          s2.axiom(z3.And(ref > 0, ref < 1000000))
          out.append((s2, VRef('dict', ref, elem=None, keykind=Kind('str'))))
        elif n == 1:
          s2.axiom(z3.Not(Val.is_VR(other)))
          out.append((s2, VVal(other)))
        else:
          exc = self.alloc(s2, 'exc:yaml.YAMLError')
          out.append((s2, Raised(exc)))
    return out

  def b_yaml_dict_of(self, st, args, kwargs):
    """Spec function: the dict yaml.safe_load yields for the text read from the given file object."""
    text = z3.Function('file_read', z3.IntSort(), z3.StringSort())(args[0].t)
    ref = z3.Function('yaml_dict', z3.StringSort(), z3.IntSort())(text)
    return [(st, VRef('dict', ref, elem=None, keykind=Kind('str')))]

  def le32(self, t):
    return z3.Concat(z3.StrFromCode(t % 256), z3.StrFromCode((t / 256) % 256), z3.StrFromCode((t / 65536) % 256),
                     z3.StrFromCode((t / 16777216) % 256))

  def x_struct_calcsize(self, st, args, kwargs):
    fmt = z3.simplify(args[0].t).as_string()
    import struct as _s
    return [(st, VInt(_s.calcsize(fmt)))]

  def x_struct_pack(self, st, args, kwargs):
    """Trusted: struct.pack('<nI', ...) is the concatenation of little-endian 32-bit words; struct.error outside 0..2^32-1."""
    self.ctx.use_trusted('struct.pack')
    fmt = z3.simplify(args[0].t).as_string()
    import re as _re
    m = _re.match(r'^<(\d*)I$', fmt)
    if not m or int(m.group(1) or 1) != len(args) - 1:
      raise Unsupported('struct.pack format %r' % fmt)
    ints = [vv.as_intlike(a) for a in args[1:]]
    if any(i is None for i in ints):
      return [(st, self.raise_builtin(st, 'struct.error', 'required argument is not an integer'))]
    ok = z3.And(*[z3.And(i >= 0, i < 2**32) for i in ints])
    out = []
    for s, good in self.branch(st, ok):
      if good:
        out.append((s, VBytes(z3.Concat(*[self.le32(i) for i in ints]))))
      else:
        out.append((s, self.raise_builtin(s, 'struct.error', 'argument out of range')))
    return out

  def x_struct_unpack(self, st, args, kwargs):
    self.ctx.use_trusted('struct.unpack')
    fmt = z3.simplify(args[0].t).as_string()
    import re as _re
    if fmt == '>I':
      # big-endian word, kept abstract (be32): the only producer in scope is binascii.unhexlify of hex digits
      raw = args[1]
      if not isinstance(raw, (VStr, VBytes)):
        raise Unsupported('struct.unpack of %r' % (raw,))
      be32 = z3.Function('be32', z3.StringSort(), z3.IntSort())
      out = []
      for s, good in self.branch(st, z3.Length(raw.t) == 4):
        if good:
          s.axiom(z3.And(be32(raw.t) >= 0, be32(raw.t) < 2**32))
          out.append((s, VTuple([VInt(be32(raw.t))])))
        else:
          out.append((s, self.raise_builtin(s, 'struct.error', 'unpack requires a buffer of 4 bytes')))
      return out
    m = _re.match(r'^<(\d*)I$', fmt)
    if not m:
      raise Unsupported('struct.unpack format %r' % fmt)
    n = int(m.group(1) or 1)
    raw = args[1]
    if isinstance(raw, VVal):
      rs = self.resolve(st, raw)
      if len(rs) != 1:
        raise Unsupported('struct.unpack of a value of several possible types')
      st, raw = rs[0]
    if not isinstance(raw, (VStr, VBytes)):
      raise Unsupported('struct.unpack of %r' % (raw,))
    out = []
    for s, good in self.branch(st, z3.Length(raw.t) == 4 * n):
      if not good:
        out.append((s, self.raise_builtin(s, 'struct.error', 'unpack requires a buffer of %d bytes' % (4 * n))))
        continue
      words = []
      for k in range(n):
        b = [z3.StrToCode(z3.SubString(raw.t, z3.IntVal(4 * k + j), z3.IntVal(1))) for j in range(4)]
        w = b[0] + 256 * b[1] + 65536 * b[2] + 16777216 * b[3]
        for x in b:
          s.axiom(z3.And(x >= 0, x <= 255))      # wire data: code points <= 255
        words.append(VInt(w))
      out.append((s, VTuple(words)))
    return out

  def x_binascii_unhexlify(self, st, args, kwargs):
    """Trusted: unhexlify(s) is `unhex(s)` (half as long) when s is an even number of hex digits, else binascii.Error
    (a ValueError)."""
    self.ctx.use_trusted('binascii.unhexlify')
    raw = args[0]
    if not isinstance(raw, (VStr, VBytes)):
      raise Unsupported('unhexlify of %r' % (raw,))
    unhex = z3.Function('unhex', z3.StringSort(), z3.StringSort())
    ishex = z3.Function('is_hex', z3.StringSort(), z3.BoolSort())
    out = []
    for s, good in self.branch(st, z3.And(ishex(raw.t), z3.Length(raw.t) % 2 == 0)):
      if good:
        s.axiom(2 * z3.Length(unhex(raw.t)) == z3.Length(raw.t))
        out.append((s, VBytes(unhex(raw.t))))
      else:
        out.append((s, self.raise_builtin(s, 'ValueError', 'Non-hexadecimal digit found / Odd-length string')))
    return out

  def b_hex32(self, st, args, kwargs):
    """spec: the value announced by the first 8 characters of a DATA payload."""
    unhex = z3.Function('unhex', z3.StringSort(), z3.StringSort())
    be32 = z3.Function('be32', z3.StringSort(), z3.IntSort())
    return [(st, VInt(be32(unhex(z3.SubString(args[0].t, 0, 8)))))]

  def b_hex8(self, st, args, kwargs):
    """spec: '%08x' % n"""
    return [(st, VStr(self.hex8_of(st, vv.as_intlike(args[0]))))]

  def b_is_hex8(self, st, args, kwargs):
    ishex = z3.Function('is_hex', z3.StringSort(), z3.BoolSort())
    sub = z3.SubString(args[0].t, 0, 8)
    return [(st, VBool(z3.And(ishex(sub), z3.Length(sub) == 8)))]

  def x_collections_defaultdict(self, st, args, kwargs):
    d = VPyDict_()({})
    d.default = args[0] if args else None
    return [(st, d)]

  def x_os_path_basename(self, st, args, kwargs):
    return [(st, VStr(z3.Function('basename', z3.StringSort(), z3.StringSort())(args[0].t)))]


def VPyDict_():
  from pyvc.engine import VPyDict
  return VPyDict


def VGen_():
  from pyvc.engine import VGen
  return VGen
