"""Symbolic executor: attribute access, subscripts, calls, instantiation."""
import ast

import z3

from pyvc import values as vv
from pyvc.values import (Val, V, VNone, NONE, VBool, VInt, VFloat, VStr, VBytes, VEnum, VRef, VVal, VTuple,
                         VClass, VCallable, VOpaque, VFunc, VBuiltin, VModule, VSuper, Raised, Unsupported,
                         fresh, Kind, parse_kind)
from pyvc.loader import ClassInfo, EnumInfo, FuncInfo, BUILTIN_EXC, builtin_exc_is_sub
from pyvc.ops import VTypeSym
from pyvc.engine import VPyDict, VGen, LOGGER_NAMES, MAX_INLINE_DEPTH
from pyvc.builtins import _logger_method


class AccessMixin(object):

  # ------------------------------------------------------------------ getattr
  def getattr(self, st, v, name, node=None):
    """[(state, V | Raised)]"""
    if isinstance(v, VVal):
      out = []
      for s, tv in self.resolve(st, v):
        out.extend(self.getattr(s, tv, name, node))
      return out
    if isinstance(v, VModule):
      return [(st, self.module_attr(st, v, name))]
    if isinstance(v, VClass):
      return [(st, self.class_attr(st, v.cls, name))]
    if isinstance(v, VEnum):
      if name not in ('name', 'value') and name not in v.enum.methods:
        self.safety(st, z3.BoolVal(False), 'attr', "'%s' object has no attribute '%s'" % (v.enum.name, name), node)
        return []
      return [(st, self.enum_attr(st, v, name))]
    if isinstance(v, VTypeSym) and name in ('__name__', '__qualname__'):
      return [(st, VStr(z3.Function('type_name', z3.IntSort(), z3.StringSort())(v.t)))]
    if isinstance(v, VSuper):
      m = v.cls.find_method(name, after=v.cls) if isinstance(v.cls, ClassInfo) else None
      if m is not None:
        return [(st, VFunc(m, bound=v.obj))]
      if name == '__setattr__':
        obj = v.obj
        def raw_setattr(ex, s, a, k):
          nm = z3.simplify(a[0].t)
          if not z3.is_string_value(nm):
            raise Unsupported('object.__setattr__ with symbolic attribute name')
          ex.write_field(s, obj, nm.as_string(), a[1])
          return [(s, NONE)]
        return [(st, VBuiltin('object.__setattr__', raw_setattr))]
      self.ctx.use_trusted('builtin-base.%s' % name)
      return [(st, VBuiltin('super.' + name, lambda ex, s, a, k: [(s, NONE)]))]
    if isinstance(v, VRef):
      return self.obj_getattr(st, v, name, node)
    if isinstance(v, VNone):
      self.safety(st, z3.BoolVal(False), 'attr', "'NoneType' object has no attribute '%s'" % name, node)
      return []
    b = self.builtin_method(st, v, name)
    if b is not None:
      return [(st, b)]
    if isinstance(v, VCallable) and ('opaque:' + v.label, name) in self.ctx.registry.fields:
      # a data attribute of an opaque user object / class, declared with reg.shape('opaque:<label>', attr=kind)
      return [(st, self.read_field(st, VRef('opaque:' + v.label, v.t), name))]
    if isinstance(v, VCallable) and not name.startswith('__'):
      # a method of an opaque user object: itself an opaque callable, identified by (object, method name)
      m_ = VCallable(z3.Function('attr_' + name, z3.IntSort(), z3.IntSort())(v.t), label='%s.%s' % (v.label, name))
      m_.owner = v            # the object the method was looked up on
      return [(st, m_)]
    raise Unsupported('attribute %s of %r' % (name, v))

  def class_attr(self, st, cls, name):
    if isinstance(cls, EnumInfo):
      idx = cls.index(name)
      if idx is not None:
        return VEnum(cls, idx)
      if name in cls.methods:
        return VFunc(cls.methods[name])
      if name == '__name__':
        return VStr(cls.name.split('.')[-1])
      raise Unsupported('enum attr %s.%s' % (cls.name, name))
    if isinstance(cls, ClassInfo):
      if name == '__name__':
        return VStr(cls.name.split('.')[-1])
      m = cls.find_method(name)
      if m is not None:
        if m.is_classmethod:
          return VFunc(m, bound=VClass(cls))
        return VFunc(m)
      for c in cls.mro():
        if name in c.nested:
          return VClass(c.nested[name])
      ov = getattr(self.ctx.registry, 'class_attr_overrides', {})
      for c_ in (cls.mro() if isinstance(cls, ClassInfo) else []):
        if (c_.name, name) in ov:
          return ov[(c_.name, name)](self, st)
      owner, expr = cls.find_class_attr(name)
      if expr is not None:
        return self.eval_module_const(st, owner.module, expr)
      raise Unsupported('class attr %s.%s' % (cls.name, name))
    if isinstance(cls, str):
      if name == '__name__':
        return VStr(cls.split(':')[-1])
      return self.external('builtins.%s.%s' % (cls, name))
    raise Unsupported('class attr on %r' % (cls,))

  def enum_attr(self, st, v, name):
    e = v.enum
    idx = z3.simplify(v.t)
    if name == 'name':
      if z3.is_int_value(idx):
        return VStr(e.members[idx.as_long()][0])
      t = z3.StringVal(e.members[-1][0])
      for i in range(len(e.members) - 2, -1, -1):
        t = z3.If(v.t == i, z3.StringVal(e.members[i][0]), t)
      return VStr(t)
    if name == 'value':
      vals = []
      for _, expr in e.members:
        vals.append(self.eval_module_const(st, e.module, expr))
      if z3.is_int_value(idx):
        return vals[idx.as_long()]
      if all(isinstance(x, VInt) for x in vals):
        t = vals[-1].t
        for i in range(len(vals) - 2, -1, -1):
          t = z3.If(v.t == i, vals[i].t, t)
        return VInt(t)
      if all(isinstance(x, VStr) for x in vals):
        t = vals[-1].t
        for i in range(len(vals) - 2, -1, -1):
          t = z3.If(v.t == i, vals[i].t, t)
        return VStr(t)
      raise Unsupported('enum .value of mixed types')
    if name in e.methods:
      return VFunc(e.methods[name], bound=v)
    raise Unsupported('enum attr ' + name)

  def obj_getattr(self, st, v, name, node=None):
    if v.nullable:
      self.safety(st, v.t != 0, 'attr', "'NoneType' object has no attribute '%s'" % name, node)
      v = VRef(v.cls, v.t, nullable=False, exact=v.exact, elem=v.elem)
    cls = v.cls
    if isinstance(cls, str):
      if cls == 'logger':
        return [(st, VBuiltin('logger.' + name, _logger_method(name), bound=v))]
      if cls == 'colorama':
        return [(st, VStr(z3.StringVal('')))]       # terminal colour codes: console decoration only
      if cls == 'CONF':
        tm = self.ctx.registry.trusted_method('CONF', name)
        if tm is not None:
          return [(st, VBuiltin('CONF.%s' % name, tm, bound=v))]
        return [(st, self.conf_value(st, name))]
      if cls.startswith('gen:') and name == 'send':
        return [(st, VBuiltin('%s.send' % cls, lambda ex, s, a, k: ex.co_resume(s, a[0], a[1]), bound=v))]
      if cls.startswith('exc:'):
        oid = self.oid_of(v)
        if oid is not None and (oid, name) in st.pyheap:
          return [(st, st.pyheap[(oid, name)])]
        if name == 'args':
          return [(st, VTuple([]))]
        if name == '__class__':
          return [(st, VClass(cls[4:]))]
        raise Unsupported('attribute %s of builtin exception' % name)
      if self.field_kind(cls, name) is not None:
        return [(st, self.read_field(st, v, name))]
      b = self.builtin_method(st, v, name)
      if b is not None:
        return [(st, b)]
      tm = self.ctx.registry.trusted_method(cls, name)
      if tm is not None:
        return [(st, VBuiltin('%s.%s' % (cls, name), tm, bound=v))]
      raise Unsupported('attribute %s of %s object' % (name, cls))
    if cls is None:
      tm = self.ctx.registry.trusted_method('*', name)
      if tm is not None:
        return [(st, VBuiltin('*.%s' % name, tm, bound=v))]
      raise Unsupported('attribute %s on object of unknown class' % name)
    # 1 properties (data descriptors)
    m = cls.find_method(name)
    if m is not None and m.is_property:
      if m.is_abstract:
        if self.field_kind(cls, name) is not None:
          return [(st, self.read_field(st, v, name))]      # every concrete subclass stores it as a plain attribute
        raise Unsupported('abstract property %s.%s (dynamic class unknown)' % (cls.name, name))
      return self.call_function(st, m, [v], {})
    # 2 instance fields
    if self.has_field(st, v, name):
      val = self.read_field(st, v, name)
      if val is not None:
        return [(st, val)]
    # trusted / overridden members (threads, events ...)
    tm = self.ctx.registry.trusted_method(cls, name)
    if tm is not None:
      return [(st, VBuiltin('%s.%s' % (cls.name, name), tm, bound=v))]
    # 3 methods / class attributes
    if m is not None:
      if m.is_staticmethod:
        return [(st, VFunc(m))]
      if m.is_classmethod:
        return [(st, VFunc(m, bound=VClass(cls)))]
      if not v.exact and not self.spec_mode_static_dispatch():
        impls = self.virtual_impls(cls, name, m)
        if impls is not None:
          out = []
          for impl, owner, uids in impls:
            s = st.fork()
            s.assume(z3.Or(*[s.classof(v.t) == u for u in uids]))
            if self.feasible(s):
              out.append((s, VFunc(impl, bound=VRef(owner, v.t, elem=v.elem))))
          return out
      return [(st, VFunc(m, bound=v))]
    ov = getattr(self.ctx.registry, 'class_attr_overrides', {})
    for c_ in cls.mro():
      if (c_.name, name) in ov:
        return [(st, ov[(c_.name, name)](self, st))]
    owner, expr = cls.find_class_attr(name)
    if expr is not None:
      return [(st, self.eval_module_const(st, owner.module, expr))]
    for c in cls.mro():
      if name in c.nested:
        return [(st, VClass(c.nested[name]))]
    if name == '__class__':
      return [(st, VClass(cls))]
    if name in LOGGER_NAMES:
      return [(st, VRef('logger', 2))]
    ga = cls.find_method('__getattr__')
    if ga is not None:
      return self.call_function(st, ga, [v, VStr(name)], {})
    oid = self.oid_of(v)
    if (oid is not None and oid >= 1000000) or any(c.name in self.ctx.registry.closed_classes for c in cls.mro()):
      # object allocated in this activation, or class with a closed shape: the attribute really is missing
      self.safety(st, z3.BoolVal(False), 'attr', "'%s' object has no attribute '%s'" % (cls.name, name), node)
      return []
    raise Unsupported('attribute %s of %s: declare its shape' % (name, cls.name))

  def spec_mode_static_dispatch(self):
    return False

  def virtual_impls(self, cls, name, m):
    """Dynamic dispatch on an object whose static class has loaded subclasses overriding `name`:
    [(implementation, narrowest common owner, [class uids])] or None when no subclass overrides it."""
    groups = {}
    for sub in self.ctx.registry.subclasses(cls):
      impl = sub.find_method(name)
      if impl is None or getattr(sub, 'is_abstract_class', False):
        continue
      groups.setdefault(id(impl), [impl, []])[1].append(sub)
    if len(groups) <= 1 and not m.is_abstract:
      only = list(groups.values())
      if not only or only[0][0] is m:
        return None
    out = []
    for impl, subs in groups.values():
      if impl.is_abstract:
        continue          # classes that leave it abstract cannot be instantiated
      owner = subs[0]
      for c in subs[0].mro():
        if all(x.is_subclass_of(c) for x in subs):
          owner = c
          break
      out.append((impl, owner, [x.uid for x in subs]))
    return out

  def conf_value(self, st, name):
    key = 'CONF.' + name
    if key not in st.ghost:
      kind = self.ctx.registry.conf_kinds.get(name, parse_kind('val'))
      t = z3.Const('CONF_' + name, kind.sort())
      st.ghost[key] = self.wrap(st, t, kind)
      self.ctx.use_trusted('CONF.' + name)
    return st.ghost[key]

  # ------------------------------------------------------------------ setattr
  def setattr(self, st, obj, name, value, node=None):
    """[(state, None | Raised)]"""
    if isinstance(obj, VVal):
      out = []
      for s, tv in self.resolve(st, obj):
        out.extend(self.setattr(s, tv, name, value, node))
      return out
    if isinstance(obj, VCallable) and ('opaque:' + obj.label, name) in self.ctx.registry.fields:
      self.write_field(st, VRef('opaque:' + obj.label, obj.t), name, value)
      return [(st, None)]
    if not isinstance(obj, VRef):
      raise Unsupported('setattr on %r' % (obj,))
    if obj.nullable:
      self.safety(st, obj.t != 0, 'attr', "'NoneType' object has no attribute '%s'" % name, node)
      obj = VRef(obj.cls, obj.t, exact=obj.exact, elem=obj.elem)
    cls = obj.cls
    if isinstance(cls, ClassInfo):
      setter = cls.find_setter(name)
      if setter is not None:
        return [(s, r if isinstance(r, Raised) else None) for s, r in self.call_function(st, setter, [obj, value], {})]
      sa = cls.find_method('__setattr__')
      if sa is not None and not self.in_function(sa):
        return [(s, r if isinstance(r, Raised) else None)
                for s, r in self.call_function(st, sa, [obj, VStr(name), value], {})]
      if cls.attrs_frozen and st.env.get('$attrs_init') is not obj.t:
        return [(st, self.raise_builtin(st, 'AttributeError', 'frozen instance'))]
    self.write_field(st, obj, name, value)
    return [(st, None)]

  def in_function(self, finfo):
    return finfo in self.call_stack

  # ------------------------------------------------------------------ subscripts
  def subscript(self, st, c, k, node=None):
    out = []
    from pyvc.values import VSnap
    for s, cv in self.resolve(st, c):
      if (isinstance(cv, VRef) and cv.cls == 'dict') or (isinstance(cv, VSnap) and cv.how == 'dict'):
        out.extend(self._subscript(s, cv, k, node))     # dict keys are used as they are (no case split)
        continue
      for s2, kv in self.resolve(s, k):
        out.extend(self._subscript(s2, cv, kv, node))
    return out

  def norm_index(self, st, idx, n, node, what='list index out of range'):
    """Python index normalisation with the IndexError safety obligation (or raise if opted in)."""
    self.safety(st, z3.And(idx >= -n, idx < n), 'index', what, node)
    return z3.If(idx < 0, idx + n, idx)

  def _subscript(self, st, c, k, node):
    from pyvc.values import VSnap, VSeq
    if isinstance(c, VSeq):
      el = z3.Select(c.t, vv.as_intlike(k))
      if el.sort() == z3.StringSort():
        return [(st, VStr(el))]
      if el.sort() == z3.IntSort():
        return [(st, VInt(el))]
      return [(st, self.from_val(st, el, None))]
    if isinstance(c, VSnap):
      if c.how == 'dict':
        return [(st, self.from_val(st, z3.Select(c.b, self.to_val(st, k)), c.elem))]
      i = vv.as_intlike(k)
      return [(st, self.from_val(st, z3.Select(c.b, z3.If(i < 0, i + c.a, i)), c.elem))]
    if isinstance(c, VRef) and c.nullable:
      self.safety(st, c.t != 0, 'subscript', "'NoneType' object is not subscriptable", node)
    if isinstance(c, VTuple):
      i = vv.as_intlike(k)
      if i is None:
        raise Unsupported('tuple index type')
      ci = z3.simplify(i)
      if z3.is_int_value(ci):
        n = ci.as_long()
        if -len(c.items) <= n < len(c.items):
          return [(st, c.items[n])]
        return [(st, self.implicit_raise(st, 'IndexError', 'tuple index out of range', node))]
      raise Unsupported('tuple indexed symbolically')
    if isinstance(c, VRef) and c.cls in ('list', 'tuple'):
      i = vv.as_intlike(k)
      if i is None:
        raise Unsupported('list index type')
      n = self.list_len(st, c)
      if 'IndexError' in self.implicit_opt_in():
        out = []
        for s, ok in self.branch(st, z3.And(i >= -n, i < n)):
          if ok:
            out.append((s, self.list_get(s, c, z3.If(i < 0, i + n, i))))
          else:
            out.append((s, self.raise_builtin(s, 'IndexError', 'list index out of range')))
        return out
      idx = self.norm_index(st, i, n, node)
      return [(st, self.list_get(st, c, idx))]
    if isinstance(c, VRef) and c.cls == 'dict':
      has = self.dict_has(st, c, k)
      if 'KeyError' in self.implicit_opt_in():
        out = []
        for s, ok in self.branch(st, has):
          if ok:
            out.append((s, self.dict_load(s, c, k)))
          else:
            out.append((s, self.raise_builtin(s, 'KeyError', 'key')))
        return out
      self.safety(st, has, 'key', 'KeyError', node)
      return [(st, self.dict_load(st, c, k))]
    if isinstance(c, VPyDict) and isinstance(k, VEnum):
      out = []
      miss = []
      for key, v in c.d.items():
        if isinstance(key, tuple) and key[0] == 'enum' and key[1] == k.enum.name:
          miss.append(k.t != key[2])
          for s, hit in self.branch(st.fork(), k.t == key[2]):
            if hit:
              out.append((s, v))
      default = getattr(c, 'default', None)
      if default is not None:
        # collections.defaultdict: a missing key yields default_factory()
        s = st.fork()
        s.assume(z3.And(*miss) if miss else z3.BoolVal(True))
        if self.feasible(s):
          out.extend(self.call(s, default, [], {}, node))
      return out
    if isinstance(c, VPyDict) and not isinstance(k, VStr) and getattr(c, 'default', None) is not None:
      return self.call(st, c.default, [], {}, node)          # defaultdict: a key it cannot hold yields default_factory()
    if isinstance(c, VPyDict):
      ks = z3.simplify(k.t) if isinstance(k, VStr) else None
      if ks is not None and z3.is_string_value(ks):
        if ks.as_string() in c.d:
          return [(st, c.d[ks.as_string()])]
        return [(st, self.implicit_raise(st, 'KeyError', ks.as_string(), node))]
      raise Unsupported('python-side dict with symbolic key')
    if isinstance(c, (VStr, VBytes)):
      i = vv.as_intlike(k)
      if i is None:
        raise Unsupported('str index type')
      n = z3.Length(c.t)
      idx = self.norm_index(st, i, n, node, 'string index out of range')
      if isinstance(c, VStr):
        return [(st, VStr(z3.SubString(c.t, idx, 1)))]
      return [(st, VInt(z3.StrToCode(z3.SubString(c.t, idx, 1))))]
    if isinstance(c, VRef) and isinstance(c.cls, ClassInfo):
      m = c.cls.find_method('__getitem__')
      if m is not None:
        return self.call_function(st, m, [c, k], {})
    raise Unsupported('subscript on %r' % (c,))

  def implicit_opt_in(self):
    return self.ctx.opts.get('implicit_raises', ())

  def implicit_raise(self, st, name, msg, node):
    if name in self.implicit_opt_in():
      return self.raise_builtin(st, name, msg)
    self.safety(st, z3.BoolVal(False), name.lower(), msg, node)
    return self.raise_builtin(st, name, msg)

  def slice(self, st, c, lo, hi, step):
    if not isinstance(step, VNone):
      raise Unsupported('slice step')
    out = []
    for s, cv in self.resolve(st, c):
      out.append((s, self._slice(s, cv, lo, hi)))
    return out

  def _slice(self, st, c, lo, hi):
    def clamp(v, n, default):
      if isinstance(v, VNone):
        return default
      i = vv.as_intlike(v)
      if i is None:
        raise Unsupported('slice bound type')
      i = z3.If(i < 0, i + n, i)
      return z3.If(i < 0, 0, z3.If(i > n, n, i))
    if isinstance(c, (VStr, VBytes)):
      n = z3.Length(c.t)
      a, b = clamp(lo, n, z3.IntVal(0)), clamp(hi, n, n)
      return type(c)(z3.SubString(c.t, a, z3.If(b > a, b - a, 0)))
    if isinstance(c, VTuple):
      a = None if isinstance(lo, VNone) else z3.simplify(vv.as_intlike(lo))
      b = None if isinstance(hi, VNone) else z3.simplify(vv.as_intlike(hi))
      if (a is None or z3.is_int_value(a)) and (b is None or z3.is_int_value(b)):
        return VTuple(c.items[(a.as_long() if a is not None else None):(b.as_long() if b is not None else None)])
      raise Unsupported('symbolic tuple slice')
    if isinstance(c, VRef) and c.cls in ('list', 'tuple'):
      vals = self.list_values(st, c)
      a = None if isinstance(lo, VNone) else z3.simplify(vv.as_intlike(lo))
      b = None if isinstance(hi, VNone) else z3.simplify(vv.as_intlike(hi))
      if vals is not None and (a is None or z3.is_int_value(a)) and (b is None or z3.is_int_value(b)):
        sub = vals[(a.as_long() if a is not None else None):(b.as_long() if b is not None else None)]
        return self.new_list(st, sub, elem=c.elem, cls=c.cls)
      n = self.list_len(st, c)
      a, b = clamp(lo, n, z3.IntVal(0)), clamp(hi, n, n)
      res = self.alloc(st, c.cls, elem=c.elem)
      items = fresh('slice', z3.ArraySort(z3.IntSort(), Val))
      i = fresh('si', z3.IntSort())
      src = self.list_items(st, c)
      st.assume(z3.ForAll([i], z3.Implies(z3.And(0 <= i, i < b - a), z3.Select(items, i) == z3.Select(src, a + i))))
      self.list_set(st, res, z3.If(b > a, b - a, 0), items)
      return res
    raise Unsupported('slice of %r' % (c,))

  def store_subscript(self, st, c, k, v, node=None):
    """[(state, None|Raised)]"""
    out = []
    for s, cv in self.resolve(st, c):
      if isinstance(cv, VRef) and cv.cls == 'dict':
        self.dict_store(s, cv, k, v)
        out.append((s, None))
      elif isinstance(cv, VRef) and cv.cls == 'list':
        i = vv.as_intlike(k)
        n = self.list_len(s, cv)
        idx = self.norm_index(s, i, n, node, 'list assignment index out of range')
        self.list_set(s, cv, None, z3.Store(self.list_items(s, cv), idx, self.to_val(s, v)))
        out.append((s, None))
      elif isinstance(cv, VPyDict) and isinstance(k, VEnum) and z3.is_int_value(z3.simplify(k.t)):
        cv.d[('enum', k.enum.name, z3.simplify(k.t).as_long())] = v
        out.append((s, None))
      elif isinstance(cv, VPyDict):
        ks = z3.simplify(k.t)
        if not z3.is_string_value(ks):
          raise Unsupported('python-side dict store with symbolic key')
        cv.d[ks.as_string()] = v
        out.append((s, None))
      elif isinstance(cv, VRef) and isinstance(cv.cls, ClassInfo) and cv.cls.find_method('__setitem__'):
        for s2, r in self.call_function(s, cv.cls.find_method('__setitem__'), [cv, k, v], {}):
          out.append((s2, r if isinstance(r, Raised) else None))
      else:
        raise Unsupported('subscript store on %r' % (cv,))
    return out

  # ------------------------------------------------------------------ isinstance
  def isinstance_term(self, st, v, target):
    """z3 Bool for isinstance(v, target) on a *resolved* value; target: VClass | VTuple of VClass."""
    if isinstance(target, VTuple):
      return z3.Or(*[self.isinstance_term(st, v, t) for t in target.items])
    if isinstance(target, VTypeSym):
      raise Unsupported('isinstance against symbolic type')
    if isinstance(target, VVal):
      raise Unsupported('isinstance against unresolved type value')
    if not isinstance(target, VClass):
      raise Unsupported('isinstance target %r' % (target,))
    c = target.cls
    T, F = z3.BoolVal(True), z3.BoolVal(False)
    if isinstance(c, str):
      table = {
          'int': (VInt, VBool), 'bool': (VBool,), 'float': (VFloat,), 'str': (VStr,), 'bytes': (VBytes,),
          'numbers.Number': (VInt, VBool, VFloat), 'numbers.Integral': (VInt, VBool), 'numbers.Real': (VInt, VBool, VFloat),
          'tuple': (VTuple,), 'NoneType': (VNone,),
      }
      if c == 'object':
        return T
      if c in table:
        if isinstance(v, table[c]):
          return T
        if c == 'tuple' and isinstance(v, VRef) and v.cls == 'tuple':
          return T
        return F
      if c in ('list', 'dict', 'set'):
        return T if isinstance(v, VRef) and v.cls == c else F
      if c in ('collections.abc.Iterable', 'abc.Iterable', 'Iterable', 'collections.abc.Sequence'):
        return T if isinstance(v, (VTuple, VStr, VBytes)) or (isinstance(v, VRef) and v.cls in ('list', 'dict', 'set', 'tuple')) else F
      if c in ('collections.abc.Mapping', 'dict', 'Mapping'):
        return T if isinstance(v, VPyDict) or (isinstance(v, VRef) and v.cls == 'dict') else F
      if c in ('collections.abc.Callable', 'Callable'):
        return T if isinstance(v, (VFunc, VBuiltin, VCallable, VClass)) else F
      if c in BUILTIN_EXC or c.startswith('exc:'):
        cn = c[4:] if c.startswith('exc:') else c
        if isinstance(v, VRef):
          return self.exc_isinstance(st, v, cn)
        return F
      if isinstance(v, VRef) and isinstance(v.cls, ClassInfo):
        return T if v.cls.is_subclass_of(c) else F
      if isinstance(v, VRef) and isinstance(v.cls, str) and v.cls == c:
        return T
      return F
    if isinstance(c, EnumInfo):
      return T if isinstance(v, VEnum) and v.enum is c else F
    # repo class
    if isinstance(v, VRef):
      nn = (v.t != 0) if v.nullable else T
      if isinstance(v.cls, ClassInfo):
        if v.cls.is_subclass_of(c):
          return nn
        if v.exact or not c.is_subclass_of(v.cls):
          return F
      elif isinstance(v.cls, str) and v.cls.startswith('exc:'):
        # arbitrary exception of a builtin static class: may be any repo subclass
        if v.exact or not (c.is_exception() and any(builtin_exc_is_sub(b, v.cls[4:]) for b in c.builtin_bases() if b in BUILTIN_EXC)):
          return F
      elif v.cls is not None:
        return F
      subs = self.ctx.registry.subclasses(c)
      return z3.And(nn, z3.Or(*[st.classof(v.t) == s.uid for s in subs]))
    return F

  def exc_isinstance(self, st, v, builtin_name):
    """isinstance(exception ref, builtin exception class)."""
    sc = self.exc_class_of(v)
    if isinstance(sc, ClassInfo):
      for b in sc.builtin_bases():
        if b in BUILTIN_EXC and builtin_exc_is_sub(b, builtin_name):
          return z3.BoolVal(True)
      return z3.BoolVal(False)     # repo exception classes have their builtin ancestry statically
    if isinstance(sc, str):
      if builtin_exc_is_sub(sc, builtin_name):
        return z3.BoolVal(True)
      if v.exact or not builtin_exc_is_sub(builtin_name, sc):
        return z3.BoolVal(False)
      # static class is a proper ancestor: dynamic class unknown -> symbolic
      return z3.Function('exc_is_' + builtin_name.replace('.', '_'), z3.IntSort(), z3.BoolSort())(v.t)
    return z3.BoolVal(False)

  # ------------------------------------------------------------------ str conversion / formatting
  def to_str(self, st, v):
    """str(v): [(state, VStr|Raised)]; objects without modelled __str__ give an opaque string."""
    out = []
    for s, r in self.resolve(st, v):
      if isinstance(r, VStr):
        out.append((s, r))
      elif isinstance(r, VInt):
        out.append((s, VStr(z3.If(r.t >= 0, z3.IntToStr(r.t), z3.Concat(z3.StringVal('-'), z3.IntToStr(-r.t))))))
      elif isinstance(r, VNone):
        out.append((s, VStr('None')))
      elif isinstance(r, VBool):
        out.append((s, VStr(z3.If(r.t, z3.StringVal('True'), z3.StringVal('False')))))
      elif isinstance(r, VRef) and isinstance(r.cls, ClassInfo) and r.cls.find_method('__str__') is not None \
          and len(self.call_stack) < 6:
        out.extend(self.call_function(s, r.cls.find_method('__str__'), [r], {}))
      else:
        out.append((s, VStr(self.opaque_str(s, r))))
    return out

  def opaque_str(self, st, v):
    """Deterministic opaque rendering: str_of(val) where storable, else a fresh string."""
    try:
      t = self.to_val(st, v)
      return z3.Function('str_of', Val, z3.StringSort())(t)
    except Unsupported:
      return fresh('str', z3.StringSort())

  def hex8_of(self, st, n):
    """Trusted: '%08x' % n for 0 <= n < 2**32 is 8 hex digits whose big-endian value (binascii.unhexlify followed by
    struct.unpack('>I')) is n."""
    self.ctx.use_trusted("'%08x' % n / binascii.unhexlify / struct.unpack('>I') round trip")
    f = z3.Function('fmt_08x', z3.IntSort(), z3.StringSort())
    unhex = z3.Function('unhex', z3.StringSort(), z3.StringSort())
    ishex = z3.Function('is_hex', z3.StringSort(), z3.BoolSort())
    be32 = z3.Function('be32', z3.StringSort(), z3.IntSort())
    t = f(n)
    st.axiom(z3.Implies(z3.And(n >= 0, n < 2**32),
                        z3.And(z3.Length(t) == 8, ishex(t), z3.Length(unhex(t)) == 4, be32(unhex(t)) == n)))
    st.axiom(z3.Implies(n >= 0, z3.Length(t) >= 8))
    return t

  def str_percent(self, st, fmt, arg):
    """'%s' % args: arity obligation for constant formats, opaque/concatenated result."""
    f = z3.simplify(fmt.t)
    args = arg.items if isinstance(arg, VTuple) else [arg]
    if z3.is_string_value(f):
      text = f.as_string()
      import re as _re
      specs = _re.findall(r'%(?:\(\w+\))?[-#0 +]*\d*(?:\.\d+)?([sdrxXfgeic%])', text)
      n = len([x for x in specs if x != '%'])
      named = '%(' in text
      if not named:
        if isinstance(arg, VTuple) or n != 1:
          ok = (len(args) == n) if isinstance(arg, VTuple) else (n == 1)
          if not ok:
            self.safety(st, z3.BoolVal(False), 'format_arity', 'format %r expects %d arguments, got %d' % (text, n, len(args)))
            return self.raise_builtin(st, 'TypeError', 'not all arguments converted during string formatting')
      # build the result when every spec is %s / %d
      pieces = _re.split(r'(%(?:\(\w+\))?[-#0 +]*\d*(?:\.\d+)?[sdrxXfgeic%])', text)
      res = z3.StringVal('')
      ai = 0
      simple = not named
      for p in pieces:
        if p in ('%s', '%d') and simple and ai < len(args):
          rs = self.to_str(st, args[ai])
          ai += 1
          if len(rs) == 1 and isinstance(rs[0][1], VStr):
            res = z3.Concat(res, rs[0][1].t)
          else:
            simple = False
        elif p == '%%':
          res = z3.Concat(res, z3.StringVal('%'))
        elif p == '%08x' and simple and ai < len(args) and vv.as_intlike(args[ai]) is not None and not isinstance(args[ai], VBool):
          res = z3.Concat(res, self.hex8_of(st, vv.as_intlike(args[ai])))
          ai += 1
        elif p.startswith('%') and len(p) > 1:
          simple = False
        else:
          res = z3.Concat(res, z3.StringVal(p))
      if simple:
        return type(fmt)(z3.simplify(res))
    return type(fmt)(fresh('fmt', z3.StringSort()))
