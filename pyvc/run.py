"""Driver: runs all verification units of one property, writes evidence, applies known findings, replays."""
import argparse
import hashlib
import importlib
import json
import multiprocessing
import os
import re
import sys
import time
import traceback

VERIF = os.path.dirname(os.path.dirname(os.path.abspath(__file__)))
sys.path.insert(0, VERIF)

ASSUMPTIONS = [
    'int is mathematical; bool is a subtype of int',
    'float is IEEE-754 binary64 with round-to-nearest-even; int->float raises OverflowError beyond +-(2^1024-2^970)',
    'mixed int/float comparison is exact (CPython), encoded via fp.to_real',
    'str/bytes are z3 sequences; dict preserves insertion order',
    'objects are references; distinct parameters of reference type do not alias unless a contract says so',
    'shape declarations (field kinds in contracts/*.py) are invariants: assumed on read, checked on write',
    'opaque user callables write no framework-private field (frame assumption) and behave as their registry spec says',
    'logging calls have no effect on verified state',
    'dynamic dispatch on a reference of static class C resolves to C\'s method unless the contract forks on classof',
    'extraction drops comments, docstrings, type annotations; nothing is rewritten',
]


def sanitize(name):
  return re.sub(r'[^A-Za-z0-9_.-]+', '_', name)[:150]


def load_registry():
  from pyvc.loader import Repo, ClassInfo, EnumInfo
  from pyvc.contracts import Registry
  from pyvc import values as _vv
  # deterministic class ids / fresh names in every process (formulas are then identical run to run)
  ClassInfo._uid[0] = 0
  EnumInfo._uid[0] = 0
  _vv._fresh[0] = 0
  repo = Repo()
  reg = Registry(repo)
  import contracts
  contracts.register_all(reg)
  return repo, reg


def unit_list(reg, prop):
  units = []
  for c in reg.contracts:
    if prop in c.props and c.verify:
      units.append(('contract', c.name))
  for (name, props, fn) in reg.extra_units:
    if prop in props:
      units.append(('extra', name))
  return units


def run_unit(job):
  """Worker: (prop, kind, name, tier) -> result dict (picklable)."""
  prop, kind, name, tier = job
  t0 = time.time()
  res = {'unit': name, 'kind': kind, 'obligations': [], 'error': None, 'undecided': None, 'paths': 0,
         'trusted': {}, 'inlined': [], 'sha': None, 'covers': []}
  try:
    from pyvc.state import Ctx
    from pyvc.verify import Exec
    from pyvc import solve
    from pyvc.values import Unsupported
    repo, reg = load_registry()
    ctx = Ctx(repo, reg, '%s/%s' % (prop, name))
    timeout_ms = 20000 if tier == 'quick' else 120000
    try:
      if kind == 'contract':
        con = [c for c in reg.contracts if c.name == name and prop in c.props][0]
        res['sha'] = con.finfo.sha()
        res['file'] = con.path
        res['qualname'] = con.qualname
        ex = Exec(ctx)
        summary = ex.verify_unit(con)
      else:
        fn = [f for (n, props, f) in reg.extra_units if n == name][0]
        from pyvc.verify import Exec
        ex = Exec(ctx)
        summary = fn(ex, ctx) or {}
      res['paths'] = ctx.paths
    except Unsupported as u:
      res['undecided'] = str(u)
      res['trace'] = traceback.format_exc()[-1500:]
      if kind == 'contract' and 'needs an invariant' in str(u):
        # the loop the contract's invariant was written for is gone (the code changed): BOUNDED stand-in, used only
        # to look for a counterexample - a pass proves nothing and the unit stays undecided
        try:
          repo, reg = load_registry()
          ctx = Ctx(repo, reg, '%s/%s' % (prop, name))
          ctx.bounded_lists = 3
          con = [c for c in reg.contracts if c.name == name and prop in c.props][0]
          Exec(ctx).verify_unit(con)
          res['bounded'] = getattr(ctx, 'bounded_notes', [])
          res['undecided'] = str(u) + ' [bounded stand-in run: %s]' % '; '.join(res['bounded'])
        except Unsupported as u2:
          res['undecided'] = str(u) + ' [bounded stand-in not possible: %s]' % u2
    res['exec_s'] = round(time.time() - t0, 3)
    solve.discharge(ctx.obligations, timeout_ms, observe=ctx.observe)
    for name_, pc in ctx.covers:
      r = solve.satisfiable(pc)
      res['covers'].append((name_, str(r)))
    for ob in ctx.obligations:
      res['obligations'].append({
          'name': ob.name, 'kind': ob.kind, 'status': ob.status, 'model': ob.model, 'backend': ob.backend,
          'time': round(ob.time, 4), 'where': ob.where, 'info': {k: str(v)[:300] for k, v in ob.info.items()},
          'size': len(ob.pc)})
    res['trusted'] = ctx.trusted_uses
    res['inlined'] = sorted(ctx.inlined)
    res['feas_calls'] = ctx.feas_calls
  except Exception:
    res['error'] = traceback.format_exc()[-3000:]
  res['wall_s'] = round(time.time() - t0, 3)
  return res


def load_known(prop):
  p = os.path.join(VERIF, 'known_findings.json')
  if not os.path.exists(p):
    return []
  with open(p) as f:
    data = json.load(f)
  return [e for e in data.get('findings', []) if e.get('property') == prop and e.get('status', 'open') == 'open']


def load_baseline(prop):
  p = os.path.join(VERIF, 'baseline', '%s.json' % prop)
  if not os.path.exists(p):
    return None
  with open(p) as f:
    return json.load(f)


def write_baseline(prop, all_obs, results):
  """Record which obligations are discharged on the tree the baseline is taken from (run by hand, committed)."""
  names = {}
  for o in all_obs:
    if o['status'] == 'unsat':
      names[o['name']] = names.get(o['name'], 0) + 1
  os.makedirs(os.path.join(VERIF, 'baseline'), exist_ok=True)
  with open(os.path.join(VERIF, 'baseline', '%s.json' % prop), 'w') as f:
    json.dump({'property': prop, 'obligations': names, 'all_names': sorted(set(o['name'] for o in all_obs)),
               'units': {r['unit']: r.get('sha') for r in results}}, f, indent=1, sort_keys=True)


def main(argv=None):
  ap = argparse.ArgumentParser()
  ap.add_argument('prop')
  ap.add_argument('--tier', default=os.environ.get('VERIF_TIER', 'quick'))
  ap.add_argument('--replay')
  ap.add_argument('--unit')
  ap.add_argument('--jobs', type=int, default=16)
  ap.add_argument('-v', action='store_true')
  ap.add_argument('--write-baseline', action='store_true')
  args = ap.parse_args(argv)
  prop = args.prop
  t0 = time.time()
  seed = int(os.environ.get('VERIF_SEED', '0') or 0)
  if args.replay:
    from pyvc import replay
    return replay.run_replay_file(args.replay)
  try:
    repo, reg = load_registry()
    units = unit_list(reg, prop)
  except Exception:
    traceback.print_exc()
    print('CHECKER-ERROR property=%s (registry failed to load)' % prop)
    return 3
  if args.unit:
    units = [u for u in units if args.unit in u[1]]
  if not units:
    print('CHECKER-ERROR property=%s: no verification units' % prop)
    return 3
  jobs = [(prop, k, n, args.tier) for (k, n) in units]
  if args.jobs > 1 and len(jobs) > 1:
    with multiprocessing.get_context('fork').Pool(min(args.jobs, len(jobs))) as pool:
      results = pool.map(run_unit, jobs, chunksize=1)
  else:
    results = [run_unit(j) for j in jobs]

  known = load_known(prop)
  errors = [r for r in results if r['error']]
  undecided_units = [r for r in results if r['undecided']]
  all_obs = []
  for r in results:
    for ob in r['obligations']:
      ob['unit'] = r['unit']
      ob['bounded'] = r.get('bounded') is not None
      all_obs.append(ob)
  sat = [o for o in all_obs if o['status'] == 'sat']
  unknown = [o for o in all_obs if o['status'] == 'unknown']
  discharged = [o for o in all_obs if o['status'] == 'unsat']
  bad_covers = [(r['unit'], c) for r in results for c in r['covers'] if c[1] == 'unsat']

  # ---- regressions against the committed baseline: an obligation that is discharged on the unchanged tree and is no
  # longer provable is reported as a violation without a failing input (the solver's verdict is attached)
  baseline = load_baseline(prop)
  regressed = []
  if baseline is not None:
    bad_names = {}
    for o in unknown:
      if o.get('bounded'):
        continue        # bounded stand-in after a code change: only a counter-model counts, never an `unknown`
      bad_names.setdefault(o['name'], []).append(o)
    for name_, obs in bad_names.items():
      if name_ not in baseline.get('obligations', {}) and name_ not in baseline.get('all_names', [name_]):
        # an obligation that does not exist on the baseline tree (new call site / new exceptional exit introduced by
        # the change) and that no back end can discharge
        o = dict(obs[0])
        o['status'] = 'sat'
        o['regression'] = 'obligation does not exist on the baseline tree and is not provable (solver: unknown)'
        o['info'] = dict(o['info'], msg=o['info'].get('msg', '') + ' -- ' + o['regression'])
        regressed.append(o)
        continue
      if baseline.get('obligations', {}).get(name_, 0) > 0:
        o = dict(obs[0])
        o['status'] = 'sat'
        o['regression'] = 'discharged on the baseline tree (%d path(s)); now the solvers answer unknown' % baseline['obligations'][name_]
        o['info'] = dict(o['info'], msg=o['regression'])
        regressed.append(o)
    unknown = [o for o in unknown if o['name'] not in set(r['name'] for r in regressed)]
    sat = sat + regressed
  if args.write_baseline:
    write_baseline(prop, all_obs, results)

  # ---- violations vs known findings
  from pyvc import replay
  violations = []
  known_hits = []
  seen = set()
  # a known finding is matched on the exact obligation name; the obligation may be refuted (sat) or, when its path
  # condition carries quantified facts, merely unprovable (unknown)
  known_names = set(e['obligation'] for e in known)
  for o in [o for o in unknown if o['name'] in known_names]:
    sat = sat + [o]
  unknown = [o for o in unknown if o['name'] not in known_names]
  for o in sat:
    if o['name'] in seen:
      continue
    seen.add(o['name'])
    k = [e for e in known if e['obligation'] == o['name']]
    if k:
      known_hits.append((k[0], o))
      continue
    violations.append(o)
  # undecided obligations that carry a candidate counter-model: confirmed only by reproducing it on the real code
  still = []
  tried = set()
  for o in unknown:
    fn = getattr(reg, 'replayers', {}).get(o.get('unit'))
    if fn is None or not (o.get('model') or {}).get('$candidate') or o['name'] in tried or o['name'] in seen:
      still.append(o)
      continue
    tried.add(o['name'])
    try:
      out = fn(replay.decode_model(o['model']), o)
    except Exception:
      out = None
    if out and out.get('reproduced'):
      o = dict(o, status='sat')
      o['info'] = dict(o['info'], msg=(o['info'].get('msg', '') + ' -- solver undecided; candidate counter-model reproduced on the real code').strip())
      violations.append(o)
      sat = sat + [o]
      seen.add(o['name'])
    else:
      still.append(o)
  unknown = [o for o in still if o['name'] not in seen or o['status'] != 'unknown' or True]
  for e, o in known_hits:
    print('KNOWN-FINDING: property=%s %s [%s]' % (prop, e['what'], o['name']))
  exit_code = 0
  for o in violations:
    path, reproduced = replay.write_replay(prop, o, results, reg)
    tail = '' if reproduced else ' no-failing-input-found'
    print('VIOLATION property=%s replay=%s obligation=%s%s' % (prop, path, o['name'], tail))
    exit_code = 1
  if exit_code == 0:
    if errors:
      for r in errors:
        print('CHECKER-ERROR unit=%s\n%s' % (r['unit'], '\n'.join(r['error'].splitlines()[-6:])))
      exit_code = 3
    elif undecided_units or unknown or bad_covers:
      for r in undecided_units:
        print('UNDECIDED unit=%s: %s' % (r['unit'], r['undecided']))
        if args.v:
          print(r.get('trace', ''))
      for o in unknown:
        print('UNDECIDED obligation=%s (solver unknown)' % o['name'])
      for u, c in bad_covers:
        print('UNDECIDED vacuous: %s %s' % (u, c[0]))
      exit_code = 2
    elif not all_obs:
      print('CHECKER-ERROR property=%s: zero obligations generated' % prop)
      exit_code = 3

  # ---- evidence
  write_evidence(prop, args.tier, seed, results, all_obs, discharged, sat, unknown, known_hits, violations,
                 undecided_units, time.time() - t0, reg)
  n_known = len(known_hits)
  print('%s: %d units, %d obligations, %d discharged, %d sat (%d known), %d unknown, %d undecided units, %.1fs -> exit %d' % (
      prop, len(results), len(all_obs), len(discharged), len(sat), n_known, len(unknown), len(undecided_units),
      time.time() - t0, exit_code))
  if args.v:
    for r in undecided_units:
      print('   undecided unit', r['unit'], ':', r['undecided'])
    for r in errors:
      print('   error', r['unit'], ' | '.join(r['error'].splitlines()[-4:]))
    for o in all_obs:
      if o['status'] != 'unsat':
        print('  ', o['status'], o['name'], o['info'].get('msg', ''), o.get('model'))
  return exit_code


def write_evidence(prop, tier, seed, results, all_obs, discharged, sat, unknown, known_hits, violations, undecided_units,
                   wall, reg):
  trusted = {}
  for r in results:
    for k, v in (r.get('trusted') or {}).items():
      trusted[k] = trusted.get(k, 0) + v
  for c in reg.contracts:
    if not c.verify and prop in c.props:
      trusted['assumed-contract:%s (%s)' % (c.name, c.trusted_reason)] = trusted.get('assumed-contract:%s' % c.name, 0) + 1
  backends = {}
  for o in all_obs:
    b = backends.setdefault(o['backend'] or '?', {'n': 0, 'time_s': 0.0})
    b['n'] += 1
    b['time_s'] = round(b['time_s'] + o['time'], 3)
  samples = []
  for o in all_obs[:3] + [o for o in all_obs if o['kind'] == 'post'][:5]:
    samples.append({'name': o['name'], 'kind': o['kind'], 'status': o['status'], 'backend': o['backend'], 'time_s': o['time'],
                    'path_condition_conjuncts': o['size'], 'expr': o['info'].get('expr', o['info'].get('msg', ''))})
  meta = getattr(reg, 'prop_meta', {}).get(prop, {})
  ev = {
      'property_id': prop, 'tier': tier if tier in ('quick', 'thorough') else 'quick', 'seed': seed, 'level': 'proof',
      'coverage': {
          # obligations named by a known finding are listed separately (on some paths they are refuted or undecided)
          'obligations': len([o for o in all_obs if o['name'] not in set(k['name'] for (_, k) in known_hits)]),
          'discharged': len([o for o in discharged if o['name'] not in set(k['name'] for (_, k) in known_hits)]),
          'known_finding_obligations': sorted(set(o['name'] for (_, o) in known_hits)),
          'checker_cmd': './check %s --tier %s' % (prop, tier),
          'trusted_base': sorted('%s x%d' % (k, v) for k, v in trusted.items()),
          'samples': samples,
          'functions_under_contract': [
              {'unit': r['unit'], 'file': r.get('file'), 'qualname': r.get('qualname'), 'source_sha256_16': r.get('sha'),
               'paths': r['paths'], 'obligations': len(r['obligations']), 'inlined_helpers': r.get('inlined', []),
               'exec_s': r.get('exec_s'), 'wall_s': r['wall_s']} for r in results],
          'solver_time_s': backends,
          'undecided': [r['unit'] + ': ' + r['undecided'] for r in undecided_units] + [o['name'] for o in unknown],
          'vacuity_covers': [list(c) for r in results for c in r['covers']],
          'not_decided_clauses': meta.get('not_decided', []),
          'bounded': meta.get('bounded', []),
          'explanation': 'contract-based deductive verification: VCs generated by pyvc from the ASTs of the current /repo '
                         'sources, discharged by z3 (cvc5 on unknown); one obligation per path and post-clause',
      },
      'assumptions': ASSUMPTIONS + meta.get('assumptions', []),
      'wall_s': round(wall, 2),
      'violations': len(violations),
  }
  if ev['coverage']['discharged'] < 1:
    ev['coverage']['discharged'] = 0
  os.makedirs(os.path.join(VERIF, 'evidence'), exist_ok=True)
  with open(os.path.join(VERIF, 'evidence', '%s.json' % prop), 'w') as f:
    json.dump(ev, f, indent=1, sort_keys=True)


if __name__ == '__main__':
  sys.exit(main())
